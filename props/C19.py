"""C19 - Modbus client/server/transport end to end (ModbusSession.tla)."""
import vlib
from props.common import role1, generate, harness


def run(ctx):
    t = ctx.tier
    vh = vlib.build_vh()
    states, trans, detail = role1(ctx, [
        ("ModbusSession", "MC_ModbusSession_%s.cfg" % t, {"timeout": 3000}),
    ] + ([("ModbusSession", "MC_ModbusSession_quick.cfg", {"timeout": 3000})] if t == "thorough" else []))   # the top of the address space
    num = 150 if t == "quick" else 3000
    cases, n = generate(ctx, "ModbusSession", "Gen_ModbusSession.cfg", workers=1,
                        simulate=num, depth=30, seed=ctx.seed, timeout=3000)
    res = harness(ctx, vh, ["c19", "--cases", cases, "--seed", str(ctx.seed),
                            "--conv", "200000" if t == "quick" else "3000000"], timeout=3400)
    # several clients of one TCPServer share the register map (ModbusConc.tla)
    r1 = vlib.run_tlc(ctx.sc, "ModbusConc", "MC_ModbusConc.cfg", timeout=600)
    detail = detail + [{"cfg": "MC_ModbusConc.cfg", "distinct": r1.distinct}]
    rc = harness(ctx, vh, ["c19conc", "--duration", "3s" if t == "quick" else "60s"], timeout=600)
    res["failures"] = list(res["failures"]) + list(rc["failures"])
    res["evaluations"] += rc["evaluations"]
    if isinstance(res.get("extra"), dict):
        res["extra"]["concurrent_clients"] = rc.get("extra")
    cov = {
        "states": states, "transitions": trans, "role1": detail,
        "traces_validated_against_impl": res["traces"],
        "evaluations": res["evaluations"],
        "distinct_nontrivial": res["distinct_nontrivial"],
        "rule": "TLC checks ReadMatchesFile / TamperedIsError on every session of the small model, then generates "
                "seeded random sessions (12 client calls each: 6 API methods x addresses x counts 1..2000 bits / "
                "1..125 registers x tamper kinds) with the predicted return value of every call; each session is "
                "replayed through a real modbus.Client and modbus.Server over an in-memory duplex transport (RTU with "
                "respreader, or TCP) with a man in the middle applying the tamper. Extra families: one TCP session of "
                "66000 requests (transaction-id wrap), conversion inverse laws on all 2^16 words x 5 patterns + seeded "
                "32-bit values. evaluations = client calls replayed; distinct_nontrivial = distinct (transport, method, "
                "address, count, tamper, predicted values).",
        "samples": res["samples"],
        "extra": res.get("extra"),
    }
    return {"coverage": cov, "failures": res["failures"],
            "assumptions": ["frames are damaged one at a time; RTU single-bit damage and truncation are chosen so that the CRC is certainly wrong",
                            "responses longer than the client's 200-byte buffer may be returned or reported as an error"]}
