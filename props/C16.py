"""C16 - COBS framing (Cobs.tla)."""
import vlib
from props.common import role1, generate, harness


def run(ctx):
    t = ctx.tier
    vh = vlib.build_vh()
    states, trans, detail = role1(ctx, [("MC_Cobs", "MC_Cobs_%s.cfg" % t, {"timeout": 3000})])
    cases, n = generate(ctx, "MC_Cobs", "Gen_Cobs_%s.cfg" % t, timeout=3000)
    args = ["c16", "--cases", cases, "--seed", str(ctx.seed), "--long", t,
            "--max-exhaustive", "16" if t == "quick" else "20",
            "--max-exhaustive-damage", "16" if t == "quick" else "12", "--sampled", "600"]
    res = harness(ctx, vh, args, timeout=3400)
    cov = {
        "states": states, "transitions": trans, "role1": detail,
        "traces_validated_against_impl": res["traces"],
        "evaluations": res["evaluations"],
        "distinct_nontrivial": res["distinct_nontrivial"],
        "rule": "TLC enumerates every frame sequence of the model (payload bytes {0,1,2}, with/without leading "
                "delimiter) x every single damage event (flip/drop/insert at every offset) and checks "
                "InOrderExactlyOnce/DamageContained over every interleaving of device-read sizes; each case is "
                "printed with its wire and Pre/Post counts and replayed into the real CobsWrapper.Read under ALL "
                "2^(n-1) segmentations of the wire. A second, driver-generated family uses long frames (0xFF block "
                "code, over-long frames) with all single cuts, pairs of cuts and seeded cut sets. evaluations = "
                "complete stream replays; distinct_nontrivial = distinct (wire, damage) cases that have more than "
                "one frame or a damage event, plus long-frame streams.",
        "exhaustive": True,
        "exhaustive_what": "all segmentations of every TLC-generated wire (thorough tier: damaged wires longer than 12 bytes get 600 seeded segmentations plus the two extremes instead); the long-frame family is sampled beyond pairs of cuts",
        "samples": res["samples"],
        "extra": res.get("extra"),
    }
    return {"coverage": cov, "failures": res["failures"],
            "assumptions": ["zero-length frames are outside the domain (the consumer discards zero-length reads)",
                            "results for frames touching the damage are unconstrained (C16 allows drop or error)"]}
