"""Helpers shared by the per-property scripts."""
import json
import os

import vlib


def role1(ctx, runs):
    """runs: list of (module, cfg, kwargs). Returns (states, transitions, detail)."""
    states = trans = 0
    detail = []
    for module, cfg, kw in runs:
        r = vlib.run_tlc(ctx.sc, module, cfg, **kw)
        states += r.distinct
        trans += r.generated
        detail.append({"module": module, "cfg": cfg, "distinct_states": r.distinct,
                       "states_generated": r.generated, "depth": r.depth,
                       "wall_s": round(r.wall, 1)})
        vlib.log("role1 %s %s: %d distinct / %d generated, %.1fs" %
                 (module, cfg, r.distinct, r.generated, r.wall))
    return states, trans, detail


def generate(ctx, module, cfg, name="cases.jsonl", **kw):
    """Role 2: run a generator config, write the JSON values TLC printed as
    JSON lines, return (path, count)."""
    r = vlib.run_tlc(ctx.sc, module, cfg, collect_json=True, **kw)
    p = ctx.sc.path(name)
    with open(p, "w") as f:
        for v in r.lines:
            f.write(json.dumps(v) + "\n")
    vlib.log("role2 %s %s: %d behaviours/cases, %.1fs" % (module, cfg, len(r.lines), r.wall))
    if not r.lines:
        raise vlib.MachineryError("generator %s/%s printed nothing" % (module, cfg))
    return p, len(r.lines)


def _simpleiot_crash(stderr):
    """If the harness died of a Go panic whose first stack frames are simpleiot code, describe it."""
    lines = stderr.splitlines()
    for i, ln in enumerate(lines):
        if ln.startswith("panic:") or ln.startswith("fatal error:"):
            frames = [l.strip() for l in lines[i + 1:i + 40] if l.strip() and not l.startswith("\t")]
            funcs = [f for f in frames if "(" in f and not f.startswith("goroutine") and not f.startswith("created by")]
            # skip runtime frames; the first non-runtime frame decides whose code panicked
            for f in funcs:
                if f.startswith("runtime.") or f.startswith("panic(") or f.startswith("reflect."):
                    continue
                # frames of the standard library (encoding/binary, strings, ...) between the panic and its caller
                name = f.split("(")[0]
                if not name.startswith("main.") and ("." not in name.split("/")[0] if "/" in name else True):
                    continue
                if f.startswith("github.com/simpleiot/simpleiot/"):
                    return {"panic": ln[:300], "stack": frames[:14]}
                break
    return None


def harness(ctx, vh, args, timeout=3600, env=None, ok_rcs=(0,)):
    out = ctx.sc.path("result-%d.json" % len(os.listdir(ctx.sc.dir)))
    p = vlib.run_vh(vh, args + ["--out", out], timeout=timeout, env=env)
    crash = _simpleiot_crash(p.stderr) if p.returncode not in ok_rcs else None
    if crash:
        # the real code panicked (in a goroutine the driver cannot recover) while a behaviour of the
        # property's domain was replayed: that is behaviour of the code under test, not of the machinery
        return {"evaluations": 1, "distinct_nontrivial": 2, "traces": 0, "samples": [{"crash": crash}],
                "failures": [{"finding": "crash-in-simpleiot", "what": "simpleiot code panicked while the behaviours were replayed: " + crash["panic"],
                              "case": {"command": args[0], "stack": crash["stack"]}}],
                "extra": {"crashed": True}, "_stderr": p.stderr}
    if p.returncode not in ok_rcs or not os.path.exists(out):
        raise vlib.MachineryError("harness %s failed rc=%s\nstdout: %s\nstderr: %s" % (
            args[0], p.returncode, p.stdout[-2000:], p.stderr[-4000:]))
    res = json.load(open(out))
    res["_stderr"] = p.stderr
    return res


def diverse(behaviours, limit, steps_of=lambda b: b, seed=1):
    """TLC's simulator evaluates the Dump invariant on every successor it generates for the last
    step, so the output holds each simulated trace many times with different last steps.  Keep one
    behaviour per distinct prefix (all steps but the last), chosen by seed."""
    groups = {}
    for b in behaviours:
        st = steps_of(b)
        key = json.dumps(st[:-1], sort_keys=True)
        groups.setdefault(key, []).append(b)
    out = []
    for k in groups:
        g = groups[k]
        out.append(g[(seed * 7919 + len(out)) % len(g)])
        if limit and len(out) >= limit:
            break
    return out
