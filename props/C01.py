"""C01 - newest point wins (Store.tla, last-write-wins alphabet)."""
import vlib
from props.common import role1, generate, harness
from props.storestream import run_stream


def pointops_phase(ctx):
    """data.Points.Add / Merge / Collapse (PointOps.tla): the laws over every case of the tier's alphabet, the as-coded
    Merge must violate the tombstone promise of its comment, and every case is run through the real functions.
    Collapse is what the store's write path applies to each incoming batch: a disagreement there fails C01; Add and
    Merge are beyond the listed properties and their disagreements are only reported."""
    t = ctx.tier
    states, trans, detail = role1(ctx, [("MC_PointOps", "MC_PointOps_%s.cfg" % t, {"timeout": 3000})])
    r = vlib.run_tlc(ctx.sc, "MC_PointOps", "MC_PointOps_tomb.cfg", allow_violation=True, timeout=900)
    if not r.violation or "LawMergeTomb" not in r.violation:
        raise vlib.MachineryError("MC_PointOps_tomb.cfg: the as-coded Merge no longer violates LawMergeTomb")
    detail.append({"cfg": "MC_PointOps_tomb.cfg", "must_violate": "LawMergeTomb", "violated": True})
    cases, n = generate(ctx, "MC_PointOps", "Gen_PointOps_%s.cfg" % t, name="pointops.jsonl", workers=1, timeout=3000)
    res = harness(ctx, vlib.build_vh(), ["pointops", "--cases", cases], timeout=3000)
    return states, trans, detail, res


def apalache_bonus(ctx):
    """NewestWinsInd.tla: the integer core of NewestWins with an inductive invariant, decided by Apalache for
    histories of any length (initiation, consecution, and a last-delivery-wins store that must be rejected).
    A bonus: its outcome is recorded, it never decides the check."""
    base = ["--cinit=CInit", "--inv=IndInv"]
    return {
        "initiation": vlib.run_apalache(ctx.sc, "NewestWinsInd", base + ["--init=Init", "--length=0"]),
        "consecution": vlib.run_apalache(ctx.sc, "NewestWinsInd", base + ["--init=IndInit", "--length=1"]),
        "last_delivery_wins_rejected": vlib.run_apalache(ctx.sc, "NewestWinsInd", base + ["--init=IndInit", "--next=NextLastWins", "--length=1"]) == "error",
    }


def run(ctx):
    cov, failures = run_stream(ctx, "C01")
    pstates, ptrans, pdetail, pres = pointops_phase(ctx)
    cov["states"] += pstates
    cov["transitions"] += ptrans
    cov["role1"] = cov["role1"] + pdetail
    cov["evaluations"] += pres["evaluations"]
    cov["extra"]["pointops"] = pres.get("extra")
    cov["extra"]["apalache_inductive_invariant_bonus"] = apalache_bonus(ctx)
    for f in pres["failures"]:
        if f["finding"] == "C01:collapse":
            f = dict(f)
            f["finding"] = "collapse"
            failures.append(f)
        else:
            vlib.log("NOTE (beyond the listed properties): %s - %s" % (f["finding"], f["what"]))
    cov["rule"] = ("TLC checks NewestWins / OneRowPerIdentity over every sequence of deliveries (batches of 1..2 points "
                   "from a universe of 3 identities x MaxTs timestamps chosen around the Type+Key collision and the two "
                   "spellings of key '0', on a node and on an edge) and that the as-coded collapse violates it. "
                   "TLC-simulated delivery sequences with the predicted read after every step are replayed through "
                   "p.<id> / p.<id>.<parent> on a real instance (all fields compared, value by bits, one point per "
                   "identity); each is followed by re-ordered, re-batched and duplicated deliveries of the same points, "
                   "whose final read must be the same. evaluations = acknowledged requests; distinct_nontrivial = "
                   "distinct (request, predicted reply) pairs of the original sequences. "
                   "Point-set operations (PointOps.tla): the laws of data.Points.Add (order independence, no duplicates), "
                   "Collapse (one newest point per identity, '' = '0') and Merge (returns a subsequence of what came in) over "
                   "every case of a small alphabet; every case is run through the real functions - Collapse disagreements "
                   "fail C01 (the store collapses each batch with it), Add/Merge disagreements are reported only.")
    return {"coverage": cov, "failures": failures,
            "assumptions": ["distinct non-zero timestamps per identity; strings from pools",
                            "values are extreme float64 values from a pool (no NaN: C05)"]}
