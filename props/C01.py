"""C01 - newest point wins (Store.tla, last-write-wins alphabet)."""
from props.storestream import run_stream


def run(ctx):
    cov, failures = run_stream(ctx, "C01")
    cov["rule"] = ("TLC checks NewestWins / OneRowPerIdentity over every sequence of deliveries (batches of 1..2 points "
                   "from a universe of 3 identities x MaxTs timestamps chosen around the Type+Key collision and the two "
                   "spellings of key '0', on a node and on an edge) and that the as-coded collapse violates it. "
                   "TLC-simulated delivery sequences with the predicted read after every step are replayed through "
                   "p.<id> / p.<id>.<parent> on a real instance (all fields compared, value by bits, one point per "
                   "identity); each is followed by re-ordered, re-batched and duplicated deliveries of the same points, "
                   "whose final read must be the same. evaluations = acknowledged requests; distinct_nontrivial = "
                   "distinct (request, predicted reply) pairs of the original sequences.")
    return {"coverage": cov, "failures": failures,
            "assumptions": ["distinct non-zero timestamps per identity; strings from pools",
                            "values are extreme float64 values from a pool (no NaN: C05)"]}
