"""C04 - crash safety of the store (StoreTxn.tla, Trace_StoreTxn.tla)."""
import json
import re

import vlib
from props.common import role1, harness


def run(ctx):
    t = ctx.tier
    vh = vlib.build_vh()
    states, trans, detail = role1(ctx, [("StoreTxn", "MC_StoreTxn.cfg", {"timeout": 3000})])
    trace = ctx.sc.path("c04.ndjson")
    occ, kills = (2, 8) if t == "quick" else (8, 300)
    res = harness(ctx, vh, ["c04", "--seed", str(ctx.seed), "--trace", trace, "--occurrences", str(occ),
                            "--random-kills", str(kills)], timeout=3400)
    failures = list(res["failures"])
    lines = open(trace).read().splitlines()
    starts = [i for i, l in enumerate(lines) if '"ev":"Reset"' in l] + [len(lines)]

    def validate(chunk):
        tp = ctx.sc.path("chunk.ndjson")
        with open(tp, "w") as f:
            f.write("\n".join(chunk) + "\n")
        tr = vlib.tlc_trace(ctx.sc, "Trace_StoreTxn", "Trace_StoreTxn.cfg", tp, deque=False)
        m = re.search(r'"TRACE-REJECTED",\s*(\d+)', tr.out)
        if m:
            return int(m.group(1))
        if "No error has been found" not in tr.out:
            raise vlib.MachineryError("trace validation did not run:\n" + tr.out[-2000:])
        return 0

    accepted = 0
    if validate(lines) == 0:
        accepted = len(starts) - 1
    else:
        for i in range(len(starts) - 1):
            chunk = lines[starts[i]:starts[i + 1]]
            at = validate(chunk)
            if at == 0:
                accepted += 1
                continue
            ev = json.loads(chunk[at - 1])
            exp = json.loads(chunk[0]).get("experiment", "?")
            site = exp.split("#")[0]
            if ev.get("ev") == "Recovered":
                why = ("does not open" if not ev.get("opens") else "root changed" if not ev.get("rootSame") else
                       "signing key changed" if not ev.get("keySame") else "hashes inconsistent" if not ev.get("hashOK") else
                       "acknowledged write lost or batch partially visible")
            else:
                why = "unexpected event"
            failures.append({"finding": "crash-at-" + site,
                             "what": "after a crash at %s the re-opened store is not in a state StoreTxn.tla allows: %s" % (exp, why),
                             "case": {"experiment": [json.loads(x) for x in chunk]}})
    cov = {
        "states": states, "transitions": trans, "role1": detail,
        "traces_validated_against_impl": len(starts) - 1,
        "evaluations": res["evaluations"],
        "distinct_nontrivial": len(starts) - 1,
        "rule": "TLC checks StoreTxn.tla (write = begin / rows / hash steps / commit / ack, Crash enabled in every state, "
                "first-time initialisation as a sequence of transactions, Recover) for Durability, Atomicity, RootStable, "
                "KeyStable, Opens. A real instance runs as a child process; the parent sends acknowledged batches (node points, "
                "edge points, new edges 3 levels deep so that hash propagation has several steps) and the child is killed (SIGKILL) "
                "at every hook site inside the transactions (after begin, after the row upserts, after the edge insert, between the "
                "per-edge hash updates, before and after commit; during initialisation between its writes) at visits 1..n, and at "
                "seeded random instants from outside. It is restarted on the same file; the re-opened store's root id and signing "
                "key (meta table; the pre-crash login token must still be accepted over HTTP), the presence of every batch "
                "(all / none / partial), admin.storeVerify and an independent hash recomputation over the whole tree are logged "
                "and validated by TLC against Trace_StoreTxn.tla. evaluations = logged events; one trace per crash experiment.",
        "samples": res["samples"],
        "extra": {"experiments_accepted": accepted, "trace_events": len(lines)},
    }
    return {"coverage": cov, "failures": failures,
            "assumptions": ["process death only (SIGKILL); power loss with synchronous=NORMAL is outside what can be produced here",
                            "a crash between the root edge and the admin user of first initialisation leaves no admin user; the clauses of C04 still hold"]}
