"""C11 - decoding arbitrary points never panics (Points.tla)."""
import vlib
from props.common import role1, generate, harness


def run(ctx):
    t = ctx.tier
    vh = vlib.build_vh()
    states, trans, detail = role1(ctx, [("MC_Points", "MC_Points_%s.cfg" % t, {"timeout": 3000})])
    # sensitivity of the model: the as-coded variant must reach a panic
    r = vlib.run_tlc(ctx.sc, "MC_Points", "MC_Points_ascoded.cfg", allow_violation=True, timeout=600)
    if not r.violation:
        raise vlib.MachineryError("AsCoded variant of Points.tla no longer reaches a panic (NoPanic held)")
    cases, n = generate(ctx, "MC_Points", "Gen_Points_%s.cfg" % t, timeout=3000)
    res = harness(ctx, vh, ["c11", "--cases", cases, "--seed", str(ctx.seed)], timeout=3400)
    cov = {
        "states": states, "transitions": trans, "role1": detail,
        "traces_validated_against_impl": res["traces"],
        "evaluations": res["evaluations"],
        "distinct_nontrivial": res["distinct_nontrivial"],
        "rule": "TLC evaluates the total Dec operator for every field kind x prior value x point list (length 1 quick, "
                "<=2 thorough) over the key alphabet (empty, indexes, beyond length, 1001, negative, +1, 007, non-numeric) "
                "x tombstones {0,1,2,3,-1,-2} x value atoms, and prints the predicted outcome. Each case is run on the "
                "real Decode / MergePoints / MergeEdgePoints for every Go field of the kind under recover(), three times "
                "(plain values; seeded NaN/Inf/1e300/negative/2^53 values; extreme tombstone counts). Verdict: no panic, "
                "and points of an undeclared type leave the target identical. Agreement of outcome class and value with "
                "the spec is counted as a diagnostic (extra.diagnostic_*).",
        "exhaustive": True,
        "exhaustive_what": "the point alphabet within the bounds; values are sampled",
        "samples": res["samples"], "extra": res.get("extra"),
    }
    return {"coverage": cov, "failures": res["failures"],
            "assumptions": ["which value or error results from malformed input is left open by C11; only panics and changes by undeclared types are verdicts"]}
