"""C03 - store stream (Store.tla, graph alphabet)."""
import json

import vlib
from props.common import harness
from props.storestream import run_stream

RULES = {
 "C03": "HashConsistent (stored hash = documented XOR definition, atoms in the free Boolean group) is checked by TLC in every "
        "reachable state of the graph alphabet and must be violated by the two as-coded hash variants; ChangeReachesRoot must "
        "be violated on diamonds (known finding). On the real instance, after every acknowledged write every edge's stored Hash "
        "is compared with (i) a recomputation from the replies by an independent CRC implementation of the documented definition "
        "and (ii) the image of the atom set the specification predicts; an accepted content change must change every ancestor edge.",
 "C05": "TLC checks Acyclic, RootNeverDeleted and RefusedLeavesNoTrace for every request of the alphabet from every reachable "
        "state (self edge, cycle through live/deleted edges, new edge without type, tombstone on the root, NaN at any batch "
        "position). On the real instance every predicted refusal must be answered with an error within 4 s, leave the complete "
        "tree dump (points, edges, hashes) unchanged, publish nothing on up.> (fenced by an acknowledged no-op handled by the "
        "same subscription), and the instance must keep answering.",
 "C06": "TLC checks that the operational republish recursion equals the declarative ancestor set for every request from every "
        "reachable state (chains, mirrors, diamonds, tombstoned edges, detached nodes). On the real instance the set of up.* "
        "subjects received (same connection as the requester, fenced) for each acknowledged write must equal the predicted set, "
        "each at least once, with the request's points as payload.",
}


def repair_phase(ctx):
    """Verification and repair (Store!Mismatches / Repaired / MaintPass, MC_StoreRepair.tla)."""
    shapes = ("chain", "diamond") if ctx.tier == "quick" else ("chain", "diamond", "mirror", "moved")
    detail, cases = [], []
    states = 0
    for sh in shapes:
        r = vlib.run_tlc(ctx.sc, "MC_StoreRepair", "MC_StoreRepair_%s.cfg" % sh, timeout=900)
        states += r.distinct
        detail.append({"cfg": "MC_StoreRepair_%s.cfg" % sh, "distinct": r.distinct})
        g = vlib.run_tlc(ctx.sc, "MC_StoreRepair", "Gen_StoreRepair_%s.cfg" % sh, collect_json=True, workers=1, timeout=900)
        cases += g.lines
    r = vlib.run_tlc(ctx.sc, "MC_StoreRepair", "MC_StoreRepair_singlepass.cfg", allow_violation=True, timeout=900)
    if not r.violation or "SinglePassRepairs" not in r.violation:
        raise vlib.MachineryError("one as-coded maintenance pass no longer violates SinglePassRepairs in MC_StoreRepair.tla")
    detail.append({"cfg": "MC_StoreRepair_singlepass.cfg", "must_violate": "SinglePassRepairs", "violated": True})
    p = ctx.sc.path("repair.jsonl")
    with open(p, "w") as f:
        for c in cases:
            f.write(json.dumps(c) + "\n")
    vlib.log("role2 MC_StoreRepair: %d corruptions of %s" % (len(cases), ", ".join(shapes)))
    vh = vlib.build_vh()
    res = harness(ctx, vh, ["repair", "--cases", p, "--seed", str(ctx.seed)], timeout=3000)
    return states, detail, res


def run(ctx):
    cov, failures = run_stream(ctx, "C03")
    rstates, rdetail, rres = repair_phase(ctx)
    failures += [f for f in rres["failures"] if f["finding"].startswith("C03:")]
    cov["role1"] = cov.get("role1", []) + rdetail
    cov["evaluations"] += rres["evaluations"]
    cov["traces_validated_against_impl"] += rres["traces"]
    cov.setdefault("extra", {})
    if isinstance(cov["extra"], dict):
        cov["extra"]["repair"] = rres.get("extra")
    cov["samples"] = (cov.get("samples") or []) + rres["samples"][:2]
    cov["rule"] = RULES["C03"] + (" Behaviours: all sequences of 2 requests over root + 2 nodes, every request after a diamond / "
                                 "chain / mirror-with-deleted-edge start over root + 3 nodes (thorough: every 2 requests), and "
                                 "TLC-simulated sequences of 7 requests. evaluations = requests replayed; distinct_nontrivial = "
                                 "distinct (request, predicted reply) pairs. Verification and repair: TLC checks on every "
                                 "corruption of the start shapes (each subset of the edges gets a wrong stored hash) that a verification "
                                 "reports it, that the repaired store is HashConsistent with unchanged content, that the as-coded "
                                 "maintenance pass converges within edges + 1 passes and that one pass is not enough (must fail); on the "
                                 "real instance the same corruptions are written into the store file, admin.storeVerify must report exactly "
                                 "the predicted nodes, and after at most edges + 1 admin.storeMaint requests a verification finds nothing, "
                                 "all hashes equal the independent recomputation and no point has changed.")
    return {"coverage": cov, "failures": failures,
            "assumptions": ["CRC collisions abstracted away in the model (free XOR algebra); check (i) is concrete",
                            "writes with parent 'root' for non-root nodes (root replacement) are outside the alphabet"]}
