"""C03 - store stream (Store.tla, graph alphabet)."""
from props.storestream import run_stream

RULES = {
 "C03": "HashConsistent (stored hash = documented XOR definition, atoms in the free Boolean group) is checked by TLC in every "
        "reachable state of the graph alphabet and must be violated by the two as-coded hash variants; ChangeReachesRoot must "
        "be violated on diamonds (known finding). On the real instance, after every acknowledged write every edge's stored Hash "
        "is compared with (i) a recomputation from the replies by an independent CRC implementation of the documented definition "
        "and (ii) the image of the atom set the specification predicts; an accepted content change must change every ancestor edge.",
 "C05": "TLC checks Acyclic, RootNeverDeleted and RefusedLeavesNoTrace for every request of the alphabet from every reachable "
        "state (self edge, cycle through live/deleted edges, new edge without type, tombstone on the root, NaN at any batch "
        "position). On the real instance every predicted refusal must be answered with an error within 4 s, leave the complete "
        "tree dump (points, edges, hashes) unchanged, publish nothing on up.> (fenced by an acknowledged no-op handled by the "
        "same subscription), and the instance must keep answering.",
 "C06": "TLC checks that the operational republish recursion equals the declarative ancestor set for every request from every "
        "reachable state (chains, mirrors, diamonds, tombstoned edges, detached nodes). On the real instance the set of up.* "
        "subjects received (same connection as the requester, fenced) for each acknowledged write must equal the predicted set, "
        "each at least once, with the request's points as payload.",
}


def run(ctx):
    cov, failures = run_stream(ctx, "C03")
    cov["rule"] = RULES["C03"] + (" Behaviours: all sequences of 2 requests over root + 2 nodes, every request after a diamond / "
                                 "chain / mirror-with-deleted-edge start over root + 3 nodes (thorough: every 2 requests), and "
                                 "TLC-simulated sequences of 7 requests. evaluations = requests replayed; distinct_nontrivial = "
                                 "distinct (request, predicted reply) pairs.")
    return {"coverage": cov, "failures": failures,
            "assumptions": ["CRC collisions abstracted away in the model (free XOR algebra); check (i) is concrete",
                            "writes with parent 'root' for non-root nodes (root replacement) are outside the alphabet"]}
