"""C13 - rule client (Rule.tla)."""
import json

import vlib
from props.common import role1, harness, diverse


def run(ctx):
    t = ctx.tier
    vh = vlib.build_vh()
    states, trans, detail = role1(ctx, [("MC_Rule", "MC_Rule_%s.cfg" % t, {"timeout": 3000})])
    n = 60 if t == "quick" else 900
    r = vlib.run_tlc(ctx.sc, "MC_Rule", "Gen_Rule.cfg", collect_json=True, workers=1, simulate=n, depth=12,
                     seed=ctx.seed, timeout=3000)
    behs = diverse(r.lines, n, steps_of=lambda b: b["steps"], seed=ctx.seed)
    # rules with a schedule condition, driven by trigger points stamped inside / outside the window
    n2 = 16 if t == "quick" else 200
    r2 = vlib.run_tlc(ctx.sc, "MC_Rule", "Gen_Rule_sched.cfg", collect_json=True, workers=1, simulate=n2, depth=12,
                      seed=ctx.seed, timeout=3000)
    behs += diverse(r2.lines, n2, steps_of=lambda b: b["steps"], seed=ctx.seed)
    # feedback: a condition watches the point the rule's own set-value action writes
    n3 = 10 if t == "quick" else 120
    r3 = vlib.run_tlc(ctx.sc, "MC_Rule", "Gen_Rule_feedback.cfg", collect_json=True, workers=1, simulate=n3, depth=12,
                      seed=ctx.seed, timeout=3000)
    behs += diverse(r3.lines, n3, steps_of=lambda b: b["steps"], seed=ctx.seed)
    if not behs:
        raise vlib.MachineryError("Gen_Rule printed nothing")
    p = ctx.sc.path("c13.jsonl")
    with open(p, "w") as f:
        for b in behs:
            f.write(json.dumps(b) + "\n")
    vlib.log("role2 MC_Rule: %d behaviours" % len(behs))
    res = harness(ctx, vh, ["c13", "--cases", p, "--seed", str(ctx.seed)], timeout=3400)
    cov = {
        "states": states, "transitions": trans, "role1": detail,
        "traces_validated_against_impl": res["traces"],
        "evaluations": res["evaluations"],
        "distinct_nontrivial": res["distinct_nontrivial"],
        "rule": "TLC checks, for every batch from every reachable state, that the operational fold of rule.go (points x "
                "conditions in order, one write per change) agrees with the declarative reading (condition active iff the last "
                "matching point of the batch satisfies it; rule active iff all conditions are; action lists run exactly on a "
                "change). Configurations: every single condition of the alphabet (node/type/key filters, number operators > < = "
                "!=, on/off, text = != contains, thresholds 0/1; schedule conditions fed with trigger points whose time lies inside or "
                "outside the window, alone and next to point conditions) in the quick tier, pairs from a reduced set in the thorough "
                "tier, with 0..2 set-value actions per list. TLC-simulated behaviours (configuration + 6 batches of 1..2 points "
                "from 2 source nodes, with the predicted writes after each batch) are replayed on a real instance running the "
                "real rule client under the real client manager; a spy on p.* must see exactly the predicted writes (conditions, "
                "rule, action nodes, targets; value, text and origin) after each acknowledged batch. evaluations = batches; "
                "distinct_nontrivial = distinct (conditions, batch, predicted outcome).",
        "samples": res["samples"], "extra": res.get("extra"),
    }
    return {"coverage": cov, "failures": res["failures"],
            "assumptions": ["conditions always carry a point-type filter (an unfiltered condition would match the rule client's own writes)",
                            "schedule conditions: window arithmetic is C14's; not exercised here",
                            "a behaviour that disagrees is re-run once with a longer start-up settle time before it is reported"]}
