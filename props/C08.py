"""C08 - a client is told of every foreign change, never its own (Trace_Manager.tla)."""
from props.mgr import run_mgr


def run(ctx):
    cov, failures = run_mgr(ctx, "C08")
    cov["rule"] = ("Same recording as C07 with schedules dominated by point batches: node-point and edge-point batches (one origin "
                   "per batch: empty, the client's own id, another client's id, a user id) written to a client's node, to its child, "
                   "to the other client and to an unrelated node, on a graph where one client node is mirrored under two parents. "
                   "Trace_Manager.tla keeps, per running client, the queue of batches it is owed (mandatory: foreign origin on its "
                   "node or a descendant; optional where C08 is silent: empty origin on a descendant, own edge points; forbidden: "
                   "empty origin on its own node or its own id) and accepts a Points / EdgePoints callback only if it is the next "
                   "owed batch; at quiescence nothing mandatory may be outstanding. evaluations = logged events.")
    return {"coverage": cov, "failures": failures,
            "assumptions": ["batches are only written to a quiescent system, so which clients run is unambiguous",
                            "the final fold-equals-store clause follows from in-order, complete delivery plus C01 and is not re-checked separately"]}
