"""C08 - a client is told of every foreign change, never its own (Trace_Manager.tla)."""
import vlib
from props.common import role1, harness
from props.mgr import run_mgr


def watcher_phase(ctx):
    """client.NodeWatcher (Watcher.tla), the application-side sibling of a managed client's fold - beyond the listed
    properties: whatever the real watcher does is reported (notes, evidence), it fails no check."""
    states, trans, detail = role1(ctx, [("Watcher", "MC_Watcher.cfg", {"timeout": 600})])
    for cfg, inv in (("MC_Watcher_ascoded.cfg", "Holds"), ("MC_Watcher_regress.cfg", "NoRegress")):
        r = vlib.run_tlc(ctx.sc, "Watcher", cfg, allow_violation=True, timeout=600)
        if not r.violation or inv not in r.violation:
            raise vlib.MachineryError("%s no longer violates %s" % (cfg, inv))
        detail.append({"cfg": cfg, "must_violate": inv, "violated": True})
    try:
        res = harness(ctx, vlib.build_vh(), ["watcher", "--seed", str(ctx.seed), "--trials", "40" if ctx.tier == "quick" else "400"], timeout=1800)
    except vlib.MachineryError as e:
        # reported only: a driver that could not run decides nothing about C08
        res = {"evaluations": 0, "failures": [], "extra": {"not_run": str(e)[:300]}}
    return states, trans, detail, res


def run(ctx):
    cov, failures = run_mgr(ctx, "C08")
    wstates, wtrans, wdetail, wres = watcher_phase(ctx)
    cov["states"] += wstates
    cov["transitions"] += wtrans
    cov["role1"] = cov["role1"] + wdetail
    cov["evaluations"] += wres["evaluations"]
    cov["extra"]["node_watcher"] = wres.get("extra")
    seen = set()
    for f in wres["failures"]:
        if f["finding"] not in seen:
            seen.add(f["finding"])
            vlib.log("NOTE (beyond the listed properties): client.NodeWatcher - %s" % f["what"])
    cov["rule"] = ("Same recording as C07 with schedules dominated by point batches: node-point and edge-point batches (one origin "
                   "per batch: empty, the client's own id, another client's id, a user id) written to a client's node, to its child, "
                   "to the other client and to an unrelated node, on a graph where one client node is mirrored under two parents. "
                   "Trace_Manager.tla keeps, per running client, the queue of batches it is owed (mandatory: foreign origin on its "
                   "node or a descendant; optional where C08 is silent: empty origin on a descendant, own edge points; forbidden: "
                   "empty origin on its own node or its own id) and accepts a Points / EdgePoints callback only if it is the next "
                   "owed batch; at quiescence nothing mandatory may be outstanding. evaluations = logged events. "
                   "client.NodeWatcher (Watcher.tla, beyond the list, reported only): a watcher started at a random moment of a "
                   "numbered stream of writes; at quiescence its copy is compared with the store, outcomes are classified against "
                   "the intended and the as-coded model.")
    return {"coverage": cov, "failures": failures,
            "assumptions": ["batches are only written to a quiescent system, so which clients run is unambiguous",
                            "the final fold-equals-store clause follows from in-order, complete delivery plus C01 and is not re-checked separately"]}
