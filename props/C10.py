"""C10 - typed configuration round trips (Points.tla)."""
import vlib
from props.common import role1, generate, harness


def run(ctx):
    t = ctx.tier
    vh = vlib.build_vh()
    states, trans, detail = role1(ctx, [("MC_Points", "MC_Points_%s.cfg" % t, {"timeout": 3000})])
    cases, n = generate(ctx, "MC_Points", "Gen_Points_%s.cfg" % t, timeout=3000)
    res = harness(ctx, vh, ["c10", "--cases", cases, "--seed", str(ctx.seed),
                            "--conc", "2" if t == "quick" else "12"], timeout=3400)
    cov = {
        "states": states, "transitions": trans, "role1": detail,
        "traces_validated_against_impl": res["traces"],
        "evaluations": res["evaluations"],
        "distinct_nontrivial": res["distinct_nontrivial"],
        "rule": "TLC enumerates every value (round trip) and every ordered pair of values (diff/merge) of every field "
                "kind of Points.tla (scalar, pointer, slice 0..3, array, map over 3 keys, flat struct, pointer to struct; "
                "atoms zero/1/2; both map iteration orders) and checks the two laws on the transcribed Encode/Decode/Diff. "
                "Every case is replayed on the real data.Encode/Decode/DiffPoints/MergePoints for every Go field of that "
                "kind in the harness struct (all integer widths, floats, strings, bools, edge fields), atoms concretised "
                "with seeded extreme values. The shape (key, tombstone) of the real points is compared with the spec's "
                "as a diagnostic. distinct_nontrivial = distinct (law, kind, Go field, a, b).",
        "exhaustive": True,
        "exhaustive_what": "shapes within the bounds (lengths, key sets, nil-ness, before/after combinations); scalar values are sampled",
        "samples": res["samples"], "extra": res.get("extra"),
    }
    return {"coverage": cov, "failures": res["failures"],
            "assumptions": ["nil and empty containers are identified", "documented limits respected (<=1000 elements, |int| <= 2^53-1)"]}
