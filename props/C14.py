"""C14 - schedule windows (Schedule.tla)."""
import vlib
from props.common import role1, generate, harness


def run(ctx):
    t = ctx.tier
    vh = vlib.build_vh()
    states, trans, detail = role1(ctx, [("MC_Schedule", "MC_Schedule_%s.cfg" % t, {})])
    cases, n = generate(ctx, "MC_Schedule", "Gen_Schedule_%s.cfg" % t)
    args = ["c14", "--cases", cases]
    if t == "thorough":
        args.append("--all-anchors")
    res = harness(ctx, vh, args)
    cov = {
        "states": states, "transitions": trans, "role1": detail,
        "traces_validated_against_impl": res["traces"],
        "evaluations": res["evaluations"],
        "distinct_nontrivial": res["distinct_nontrivial"],
        "rule": "TLC enumerates every schedule of the model (start/end minute pairs x weekday "
                "subsets x date subsets x weekday of day 0) and prints Schedule!Active for every "
                "boundary instant +-1 s, midnight +-1 s and a mid-day instant on 3 consecutive days; "
                "each line is replayed into the real schedule.activeForTime on several calendar "
                "anchors (week/month/year end, leap day) and in 4 time zones. evaluations = calls of the "
                "real function; distinct_nontrivial = (schedule, anchor, instant) triples at which the "
                "predicted answer flips relative to the previous instant, i.e. a window edge is witnessed.",
        "exhaustive": True,
        "exhaustive_what": "the finite model domain of the tier (all schedules x all listed instants); "
                           "not all 1440^2 minute pairs",
        "samples": res["samples"],
    }
    return {"coverage": cov, "failures": res["failures"],
            "assumptions": ["start/end strings are well-formed HH:MM (C14's quantifier)",
                            "TLC's evaluation of Schedule!Active is the oracle; Active = ImplActive was checked by TLC on the same domain"]}
