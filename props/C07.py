"""C07 - exactly one running client per live configured node (Manager.tla, Trace_Manager.tla)."""
from props.mgr import run_mgr


def run(ctx):
    cov, failures = run_mgr(ctx, "C07")
    cov["rule"] = ("TLC checks Manager.tla (scan / notify / client-sees / exit, one action per critical section of manager.go) for "
                   "Quiesce and StopStopsAll under per-action weak fairness over all environment histories of the bound, and that "
                   "the as-coded early return of scan violates Quiesce. TLC-simulated environment schedules (create / mirror / "
                   "delete / undelete managed nodes below the root, a group and a configured parent type; add / remove children; "
                   "delete and undelete the group or parent above; each step with or without waiting for quiescence) are run "
                   "against a real instance with an instrumented client type registered through client.NewManager; constructor, "
                   "Run enter/exit and callbacks are logged with one atomic sequence number together with the driver's operations "
                   "(start and acknowledgement). TLC validates every log against Trace_Manager.tla: a client is constructed only "
                   "for a placement that was live and only when no client object exists for it, Run enter/exit alternate per "
                   "placement, at every quiescence the running set equals the live placements and each client was built from the "
                   "current children, after Stop every client exits and Run returns. evaluations = logged events.")
    return {"coverage": cov, "failures": failures,
            "assumptions": ["the verif build makes the manager's one-minute rescan fire every 200 ms (hook verifScanTick)",
                            "quiescence = no client event for 1 s (5 scan ticks), bounded at 12 s"]}
