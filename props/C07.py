"""C07 - exactly one running client per live configured node (Manager.tla, Trace_Manager.tla)."""
import vlib
from props.common import role1, generate, harness
from props.mgr import run_mgr


def lifecycle_phase(ctx):
    """The run/stop wrapper clients are grouped with (client/group.go, Lifecycle.tla): TLC checks that every member is
    told to stop once, that Run returns after all members have ended with the first one's error, and that a started
    Run terminates once the group is stopped or a member ends; every environment schedule (Stop before, while and
    after Run, repeated; members ending on their own) is replayed on the real client.Group with scripted members,
    quick ones and slow ones.  C07's last clause: stopping stops every client and returns."""
    states, trans, detail = role1(ctx, [("Lifecycle", "MC_Lifecycle.cfg", {"timeout": 900})])
    cases, n = generate(ctx, "MC_Lifecycle", "Gen_Lifecycle.cfg", name="lifecycle.jsonl", workers=1, timeout=900)
    res = harness(ctx, vlib.build_vh(), ["group", "--cases", cases], timeout=900)
    return states, trans, detail, res


def run(ctx):
    cov, failures = run_mgr(ctx, "C07")
    lstates, ltrans, ldetail, lres = lifecycle_phase(ctx)
    cov["states"] += lstates
    cov["transitions"] += ltrans
    cov["role1"] = cov["role1"] + ldetail
    cov["evaluations"] += lres["evaluations"]
    if isinstance(cov.get("extra"), dict):
        cov["extra"]["group_lifecycle"] = lres.get("extra")
    for f in lres["failures"]:
        if f["finding"].startswith("C07:"):
            f = dict(f)
            f["finding"] = f["finding"][4:]
            failures.append(f)
    cov["rule"] = ("TLC checks Manager.tla (scan / notify / client-sees / exit, one action per critical section of manager.go) for "
                   "Quiesce and StopStopsAll under per-action weak fairness over all environment histories of the bound, and that "
                   "the as-coded early return of scan violates Quiesce. TLC-simulated environment schedules (create / mirror / "
                   "delete / undelete managed nodes below the root, a group and a configured parent type; add / remove children; "
                   "delete and undelete the group or parent above; each step with or without waiting for quiescence) are run "
                   "against a real instance with an instrumented client type registered through client.NewManager; constructor, "
                   "Run enter/exit and callbacks are logged with one atomic sequence number together with the driver's operations "
                   "(start and acknowledgement). TLC validates every log against Trace_Manager.tla: a client is constructed only "
                   "for a placement that was live and only when no client object exists for it, Run enter/exit alternate per "
                   "placement, at every quiescence the running set equals the live placements and each client was built from the "
                   "current children, after Stop every client exits and Run returns. evaluations = logged events. "
                   "Run/stop groups (Lifecycle.tla): every schedule of Stop / Run / members ending on their own replayed on the "
                   "real client.Group with scripted quick and slow members; outcome (returned, whose error, every member told once, "
                   "no return before a member has ended) compared with the specification.")
    return {"coverage": cov, "failures": failures,
            "assumptions": ["the verif build makes the manager's one-minute rescan fire every 200 ms (hook verifScanTick)",
                            "quiescence = no client event for 1 s (5 scan ticks), bounded at 12 s"]}
