"""C02 - linked instances converge (Sync.tla, Trace_Sync.tla)."""
import json
import re

import vlib
from props.common import role1, harness, diverse


def run(ctx):
    t = ctx.tier
    vh = vlib.build_vh()
    states, trans, detail = role1(ctx, [("MC_Sync", "MC_Sync_%s.cfg" % t, {"timeout": 3000})])
    r = vlib.run_tlc(ctx.sc, "MC_Sync", "MC_Sync_ascoded.cfg", allow_violation=True, timeout=900)
    if not r.violation or "Converges" not in r.violation:
        raise vlib.MachineryError("the as-coded catch-up (children listed without deleted ones) no longer violates Converges")
    detail.append({"cfg": "MC_Sync_ascoded.cfg", "must_violate": "Converges", "violated": True})
    n = 12 if t == "quick" else 300
    g = vlib.run_tlc(ctx.sc, "Gen_Sync", "Gen_Sync.cfg" if t == "quick" else "Gen_Sync2.cfg", collect_json=True, workers=1,
                     simulate=n, depth=40, seed=ctx.seed, timeout=3000)
    scheds = diverse(g.lines, n, steps_of=lambda b: b["ops"], seed=ctx.seed)
    # nodes (with children) created on either side during an outage of every kind
    n2 = 8 if t == "quick" else 120
    g2 = vlib.run_tlc(ctx.sc, "Gen_Sync", "Gen_Sync_create.cfg", collect_json=True, workers=1, timeout=3000)   # all of them (BFS)
    # one schedule per (kind of outage, side on which a node and its child come into being) first
    def shape(b):
        how = next((o["how"] for o in b["ops"] if o["op"] == "down"), "")
        sides = lambda ident: "".join(sorted({o["side"] for o in b["ops"] if o["op"] == "write" and o["id"] == ident}))
        return (how, sides("eC:tomb"), sides("eD:tomb"))
    picked, seen = [], set()
    for b in g2.lines:
        k = shape(b)
        if k[2] and k not in seen:
            seen.add(k)
            picked.append(b)
    # a node and its child that come into being on one side only, first
    picked.sort(key=lambda b: (not (shape(b)[1] == shape(b)[2] and len(shape(b)[1]) == 1), shape(b)))
    rest = [b for b in diverse(g2.lines, n2, steps_of=lambda b: b["ops"], seed=ctx.seed) if b not in picked]
    scheds += (picked + rest)[:n2]
    # outages during which only one kind of node point is written (the other content of the node stays as it is)
    g3 = vlib.run_tlc(ctx.sc, "Gen_Sync", "Gen_Sync_pt.cfg", collect_json=True, workers=1, timeout=3000)   # all of them (BFS)
    n3 = 4 if t == "quick" else 40
    seen3, pick3 = set(), []
    for b in g3.lines:
        how = next((o["how"] for o in b["ops"] if o["op"] == "down"), "")
        k = (how, tuple(sorted({(o["side"], o["id"]) for o in b["ops"] if o["op"] == "write"})))
        if how != "restart" and k not in seen3:
            seen3.add(k)
            pick3.append(b)
    pick3.sort(key=lambda b: len({o["id"] for o in b["ops"] if o["op"] == "write"}))
    # always among them: a pair of twin-key points written for the first time on one side (must converge) and
    # written on both sides (the known finding crc-xor-key-twin)
    def has(b, how, writes):
        return (next((o["how"] for o in b["ops"] if o["op"] == "down"), "") == how
                and sorted((o["side"], o["id"]) for o in b["ops"] if o["op"] == "write") == sorted(writes))
    must = [b for b in pick3 if has(b, "cut", [("U", "eA:pt"), ("U", "eB:pt")]) or has(b, "disable", [("D", "eB:pt"), ("U", "eB:pt")])
            or has(b, "disable", [("D", "eA:pt"), ("D", "eB:pt")]) or has(b, "cut", [("D", "eA:pt"), ("U", "eA:pt")])]
    scheds += (must + [b for b in pick3 if b not in must])[:max(n3, len(must))]
    # node B mirrored below the device; during the outage only the edge points of its placement below A change
    g4 = vlib.run_tlc(ctx.sc, "Gen_Sync", "Gen_Sync_ept.cfg", collect_json=True, workers=1, timeout=3000)   # all of them (BFS)
    n4 = 3 if t == "quick" else 30
    seen4, pick4 = set(), []
    for b in g4.lines:
        k = (next((o["how"] for o in b["ops"] if o["op"] == "down"), ""),
             tuple(sorted({(o["side"], o["id"], o["del"]) for o in b["ops"] if o["op"] == "write"})))
        if k[0] != "restart" and k not in seen4:
            seen4.add(k)
            pick4.append(b)
    pick4.sort(key=lambda b: (len({(o["side"], o["id"]) for o in b["ops"] if o["op"] == "write"}),
                              sum(1 for o in b["ops"] if o["op"] == "write" and o["id"].endswith("tomb"))))
    scheds += pick4[:n4]
    # one point written once while the link is up and twice during the outage, every write of a side with the same
    # content: a side is asked to store what it already holds with a newer time
    g5 = vlib.run_tlc(ctx.sc, "Gen_Sync", "Gen_Sync_rewrite.cfg", collect_json=True, workers=1, timeout=3000)   # all of them (BFS)
    seen5, pick5 = set(), []
    for b in g5.lines:
        k = tuple((o["op"], o["side"], o["how"]) for o in b["ops"])
        if k not in seen5:
            seen5.add(k)
            pick5.append(b)
    def rewrites(b):   # the side that wrote before the outage writes again after the other side did
        w = [o["side"] for o in b["ops"] if o["op"] == "write"]
        return len(w) == 3 and w[0] == w[2] != w[1]
    pick5.sort(key=lambda b: (not rewrites(b), next(o["how"] for o in b["ops"] if o["op"] == "down") == "restart"))
    scheds += pick5[:4 if t == "quick" else len(pick5)]
    p = ctx.sc.path("c02.jsonl")
    with open(p, "w") as f:
        for s in scheds:
            f.write(json.dumps(s) + "\n")
    vlib.log("role2 Gen_Sync: %d schedules" % len(scheds))
    trace = ctx.sc.path("c02.ndjson")
    res = harness(ctx, vh, ["c02", "--cases", p, "--seed", str(ctx.seed), "--trace", trace], timeout=3400)
    failures = list(res["failures"])
    lines = open(trace).read().splitlines()
    starts = [i for i, l in enumerate(lines) if '"ev":"Reset"' in l] + [len(lines)]

    def validate(chunk):
        tp = ctx.sc.path("chunk.ndjson")
        with open(tp, "w") as f:
            f.write("\n".join(chunk) + "\n")
        tr = vlib.tlc_trace(ctx.sc, "Trace_Sync", "Trace_Sync.cfg", tp, deque=False)
        m = re.search(r'"TRACE-REJECTED",\s*(\d+)', tr.out)
        if m:
            return int(m.group(1))
        if "No error has been found" not in tr.out:
            raise vlib.MachineryError("trace validation did not run:\n" + tr.out[-2000:])
        return 0

    accepted = 0
    if validate(lines) == 0:
        accepted = len(starts) - 1
    else:
        for i in range(len(starts) - 1):
            chunk = lines[starts[i]:starts[i + 1]]
            at = validate(chunk)
            if at == 0:
                accepted += 1
                continue
            ev = json.loads(chunk[at - 1])
            sched = scheds[json.loads(chunk[0])["schedule"]]
            down, cls = False, "not-converged"
            for op in sched["ops"]:
                if op["op"] == "down":
                    down = True
                elif op["op"] == "up":
                    down = False
                elif down and op["id"].endswith(":tomb") and op["del"]:
                    cls = "deletion-during-outage"
            # known finding: two points that differ in nothing but the key (node B's "pt" writes) contribute the
            # same constant to the XOR-of-CRC-32 hash whatever their time and value are (CRC-32 is affine), so
            # replacing one such pair by another leaves every hash unchanged and catch-up never looks at the node.
            # Input class: the only identities that differ are such pairs, and both sides already hold a version.
            if ev.get("ev") == "Checkpoint" and not ev.get("sameNodes") and ev.get("diff"):
                differs = [i for i in ev["d"] if ev["d"][i] != ev["u"][i]]
                twin_keys = all(k.startswith("B/v:") for k in ev["diff"])
                if twin_keys and differs == ["eB:pt"] and ev["d"]["eB:pt"] != 0 and ev["u"]["eB:pt"] != 0:
                    cls = "crc-xor-key-twin"
            failures.append({"finding": cls,
                             "what": "after the link had been up through catch-up the two instances do not hold the same newest points: %s"
                                     % json.dumps(ev)[:700],
                             "case": {"schedule": sched["ops"], "trace": [json.loads(x) for x in chunk[:at]]}})
    cov = {
        "states": states, "transitions": trans, "role1": detail,
        "traces_validated_against_impl": len(starts) - 1,
        "evaluations": res["evaluations"],
        "distinct_nontrivial": len(starts) - 1,
        "rule": "TLC checks Sync.tla (two last-write-wins stores over the device subtree, real-time forwarding queues that are lost "
                "when the link drops, catch-up by hash comparison and timestamp exchange, periodic sync) for Converges under "
                "fairness and Monotone, over all histories of the bound (writes, deletions and undeletions on either side, link "
                "loss and recovery), and that the as-coded child listing violates Converges. TLC-simulated environment schedules "
                "are run against two real instances linked by the real sync client (period 1 s; link loss = the sync node's "
                "disabled point): point writes, node deletions and undeletions on either instance, 1-2 outages. After every "
                "re-connection and at the end the driver waits for two identical dumps 1.1 s apart and logs for every identity "
                "which write each side holds plus whether everything else below the device agrees; TLC validates each log "
                "against Trace_Sync.tla (both sides equal, and equal to the newest accepted write). evaluations = logged events.",
        "samples": res["samples"],
        "extra": dict(res.get("extra") or {}, schedules_accepted=accepted),
    }
    return {"coverage": cov, "failures": failures,
            "assumptions": ["message timing is sampled by the real system; convergence is judged after at most 20 s (sync period 1 s)",
                            "device subtree of root + 2 nodes, 4 identities; node creations are part of the set-up"]}
