"""C20 - concurrent use (Concurrent.tla, Trace_Concurrent.tla)."""
import json
import re

import vlib
from props.common import role1, harness


def run(ctx):
    t = ctx.tier
    vh = vlib.build_vh(race=True)
    states, trans, detail = role1(ctx, [("Concurrent", "MC_Concurrent_%s.cfg" % t, {"timeout": 3000})])
    r = vlib.run_tlc(ctx.sc, "Concurrent", "MC_Concurrent_stale.cfg", allow_violation=True, timeout=900)
    if not r.violation or "NeverRejected" not in r.violation:
        raise vlib.MachineryError("a store serving stale snapshots is no longer rejected by the acceptance conditions")
    detail.append({"cfg": "MC_Concurrent_stale.cfg", "must_violate": "NeverRejected", "violated": True})
    trace = ctx.sc.path("c20.ndjson")
    racelog = ctx.sc.path("race.log")
    hist, clients, ops = (6, 4, 8) if t == "quick" else (150, 8, 12)
    res = harness(ctx, vh, ["c20", "--seed", str(ctx.seed), "--trace", trace, "--race-log", racelog,
                            "--histories", str(hist), "--clients", str(clients), "--ops", str(ops)],
                  timeout=3400, env={"GORACE": "halt_on_error=0 exitcode=0 log_path=" + racelog})
    failures = list(res["failures"])
    lines = open(trace).read().splitlines()
    starts = [i for i, l in enumerate(lines) if '"ev":"Reset"' in l] + [len(lines)]

    def validate(chunk):
        tp = ctx.sc.path("chunk.ndjson")
        with open(tp, "w") as f:
            f.write("\n".join(chunk) + "\n")
        tr = vlib.tlc_trace(ctx.sc, "Trace_Concurrent", "Trace_Concurrent.cfg", tp, deque=False)
        m = re.search(r'"TRACE-REJECTED",\s*(\d+)', tr.out)
        if m:
            return int(m.group(1))
        if "No error has been found" not in tr.out:
            raise vlib.MachineryError("trace validation did not run:\n" + tr.out[-2000:])
        return 0

    accepted = 0
    if validate(lines) == 0:
        accepted = len(starts) - 1
    else:
        for i in range(len(starts) - 1):
            chunk = lines[starts[i]:starts[i + 1]]
            at = validate(chunk)
            if at == 0:
                accepted += 1
                continue
            ev = json.loads(chunk[at - 1])
            if ev["ev"] == "Final":
                cls = ("data-race" if ev.get("races") else "hash" if not ev.get("hashOK") else
                       "shutdown" if not (ev.get("stopOK") and ev.get("reopenOK")) else "final-content-or-lost-reply")
            elif ev["ev"] == "Ret":
                cls = "request-failed" if not ev.get("ok") else "stale-or-backward-read"
            else:
                cls = "lost-reply"
            extra_case = {}
            if cls == "data-race":
                extra_case["race_report"] = (res.get("extra") or {}).get("race_report_history_%d" % i, "")
                m2 = re.findall(r"/((?:store|client|data|api|server|modbus|node)/[\w.-]+\.go:\d+)", extra_case["race_report"])
                if m2:
                    cls = "data-race"
                    extra_case["locations"] = sorted(set(m2))[:8]
            failures.append({"finding": cls,
                             "what": "recorded history is not accepted by Trace_Concurrent.tla at event %d: %s" % (at, json.dumps(ev)[:600]),
                             "case": {"history": i, "events_before": [json.loads(x) for x in chunk[max(0, at - 10):at]], **extra_case}})
    cov = {
        "states": states, "transitions": trans, "role1": detail,
        "traces_validated_against_impl": len(starts) - 1,
        "evaluations": res["evaluations"],
        "distinct_nontrivial": len(starts) - 1,
        "rule": "TLC checks on Concurrent.tla (clients x call / linearise / return on a last-write-wins store) that the acceptance "
                "conditions - acknowledged writes visible to later reads, reads never go back, reads return only written versions, "
                "every call returns, final content = newest acknowledged write - hold in every behaviour of a linearisable store, "
                "and are violated by a store serving stale snapshots. A -race build of the driver runs a real in-process instance and "
                "N goroutines with their own NATS connections issuing seeded node-point writes, edge-point writes, reads and "
                "verification requests on 12 identities, plus reads of the root racing the insertion of a second root; calls and "
                "returns are stamped with one atomic counter; TLC validates each history against Trace_Concurrent.tla; then the "
                "final dump, hashes by the documented definition, admin.storeVerify, Server.Stop within 15 s and a re-open of the "
                "same file are checked, and any data race reported by the Go race detector in simpleiot code fails the history. "
                "evaluations = logged call/return events.",
        "samples": res["samples"],
        "extra": {"histories_accepted": accepted, "trace_events": len(lines)},
    }
    return {"coverage": cov, "failures": failures,
            "assumptions": ["real schedules are sampled by the Go runtime; the race detector only sees races that occur in a run",
                            "writes carry unique, globally increasing timestamps (C01's domain)"]}
