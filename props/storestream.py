"""Shared runner of the store stream (Store.tla / MC_Store.tla) for C01 C03 C05 C06."""
import json

import vlib
from props.common import role1, harness, diverse

MUST_FAIL = {
    "C01": [("MC_Store_ascoded_collapse.cfg", "NewestWins")],
    "C03": [("MC_Store_ascoded_edgedelta.cfg", "HashOK"), ("MC_Store_ascoded_newedge.cfg", "HashOK"),
            ("MC_Store_diamond.cfg", "ChangeReachesRoot")],
    "C05": [],
    "C06": [],
}


def gen(ctx, cfg, name, simulate=None, limit=None, seed=None):
    kw = {"collect_json": True, "timeout": 3000}
    if simulate:
        # one behaviour per distinct prefix, chosen while TLC's output is read (the simulator prints every
        # behaviour once per successor of its last step: hundreds of copies, gigabytes in the thorough tier)
        kw.update(workers=1, simulate=simulate, depth=40, seed=seed,
                  sample={"steps_of": lambda b: b, "seed": seed or 1, "limit": limit})
    r = vlib.run_tlc(ctx.sc, "MC_Store", cfg, **kw)
    lines = r.lines
    p = ctx.sc.path(name)
    with open(p, "w") as f:
        for v in lines:
            f.write(json.dumps(v) + "\n")
    vlib.log("role2 MC_Store %s: %d behaviours" % (cfg, len(lines)))
    if not lines:
        raise vlib.MachineryError("generator %s printed nothing" % cfg)
    return p, len(lines)


def run_stream(ctx, prop):
    t = ctx.tier
    vh = vlib.build_vh()
    lww = prop == "C01"
    runs = []
    if lww:
        runs.append(("MC_Store", "MC_Store_lww_%s.cfg" % t, {"timeout": 3000}))
    runs.append(("MC_Store", "MC_Store_graph_%s.cfg" % t, {"timeout": 3000}))
    if not lww:
        runs.append(("MC_Store", "MC_Store_graph_diamondstart.cfg", {"timeout": 3000}))
    states, trans, detail = role1(ctx, runs)
    # sensitivity of the invariants: the as-coded variants of the pinned tree must violate them
    for cfg, inv in MUST_FAIL[prop]:
        r = vlib.run_tlc(ctx.sc, "MC_Store", cfg, allow_violation=True, timeout=900)
        if not r.violation or inv not in r.violation:
            raise vlib.MachineryError("%s no longer violates %s (%s)" % (cfg, inv, r.violation))
        detail.append({"cfg": cfg, "must_violate": inv, "violated": True})

    results = []
    total_beh = 0

    def stream(cfgs, nodes, extra):
        nonlocal total_beh
        for cfg, kw in cfgs:
            p, n = gen(ctx, cfg, "beh-%d.jsonl" % len(results), **kw)
            total_beh += n
            res = harness(ctx, vh, ["store", "--cases", p, "--seed", str(ctx.seed), "--nodes", nodes,
                                    "--instances", "8" if t == "quick" else "16"] + extra, timeout=3400)
            results.append(res)

    if lww:
        n_sim = 300 if t == "quick" else 4000
        stream([("Gen_Store_lww_sim.cfg", {"simulate": n_sim, "limit": n_sim, "seed": ctx.seed})],
               "A,R", ["--lww", "--variants", "5" if t == "quick" else "10"])
    else:
        cfgs = [("Gen_Store_graph2.cfg", {})]
        for sh in ("diamond", "chain", "mirror", "delbottom", "deltop", "moved"):
            cfgs.append(("Gen_Store_shape_%s%s.cfg" % (sh, "1" if t == "quick" else "2"), {}))
        n_sim = 150 if t == "quick" else 3000
        cfgs.append(("Gen_Store_graph_sim.cfg", {"simulate": n_sim, "limit": n_sim, "seed": ctx.seed}))
        stream(cfgs, "A,B,C,R", [])

    failures, samples = [], []
    evals = distinct = 0
    extra = {}
    for res in results:
        evals += res["evaluations"]
        distinct += res["distinct_nontrivial"]
        samples += res["samples"][:3]
        for k, v in (res.get("extra") or {}).items():
            if isinstance(v, int):
                extra[k] = extra.get(k, 0) + v
        for f in res["failures"]:
            p, _, cls = f["finding"].partition(":")
            if p != prop:
                continue
            f = dict(f)
            f["finding"] = cls
            failures.append(f)
    cov = {
        "states": states, "transitions": trans, "role1": detail,
        "traces_validated_against_impl": total_beh,
        "evaluations": evals, "distinct_nontrivial": distinct,
        "samples": samples[:8], "extra": extra,
    }
    return cov, failures
