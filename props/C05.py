"""C05 - store stream (Store.tla, graph alphabet)."""
from props.storestream import run_stream

RULES = {
 "C03": "HashConsistent (stored hash = documented XOR definition, atoms in the free Boolean group) is checked by TLC in every "
        "reachable state of the graph alphabet and must be violated by the two as-coded hash variants; ChangeReachesRoot must "
        "be violated on diamonds (known finding). On the real instance, after every acknowledged write every edge's stored Hash "
        "is compared with (i) a recomputation from the replies by an independent CRC implementation of the documented definition "
        "and (ii) the image of the atom set the specification predicts; an accepted content change must change every ancestor edge.",
 "C05": "TLC checks Acyclic, RootNeverDeleted and RefusedLeavesNoTrace for every request of the alphabet from every reachable "
        "state (self edge, cycle through live/deleted edges, new edge without type, tombstone on the root, NaN at any batch "
        "position). On the real instance every predicted refusal must be answered with an error within 4 s, leave the complete "
        "tree dump (points, edges, hashes) unchanged, publish nothing on up.> (fenced by an acknowledged no-op handled by the "
        "same subscription), and the instance must keep answering.",
 "C06": "TLC checks that the operational republish recursion equals the declarative ancestor set for every request from every "
        "reachable state (chains, mirrors, diamonds, tombstoned edges, detached nodes). On the real instance the set of up.* "
        "subjects received (same connection as the requester, fenced) for each acknowledged write must equal the predicted set, "
        "each at least once, with the request's points as payload.",
}


def moves_phase(ctx):
    """client.MoveNode / client.MirrorNode from every start shape (Store!Move, Store!Mirror)."""
    import json
    import vlib
    from props.common import harness
    r = vlib.run_tlc(ctx.sc, "MC_Store", "MC_Store_ascoded_move.cfg", allow_violation=True, timeout=900)
    if not r.violation or "MovesAtomicAsCoded" not in r.violation:
        raise vlib.MachineryError("a move without the up-front check no longer violates MovesAtomicAsCoded in MC_Store.tla")
    shapes = ("chain", "diamond") if ctx.tier == "quick" else ("chain", "diamond", "delbottom", "moved")
    cases = []
    for sh in shapes:
        g = vlib.run_tlc(ctx.sc, "MC_Store", "Gen_StoreMoves_%s.cfg" % sh, collect_json=True, workers=1, timeout=900)
        cases += g.lines
    p = ctx.sc.path("moves.jsonl")
    with open(p, "w") as f:
        for c in cases:
            f.write(json.dumps(c) + "\n")
    vlib.log("role2 MC_Store moves / mirrors: %d cases from %s" % (len(cases), ", ".join(shapes)))
    vh = vlib.build_vh()
    return harness(ctx, vh, ["moves", "--cases", p, "--seed", str(ctx.seed)], timeout=3000)


def run(ctx):
    cov, failures = run_stream(ctx, "C05")
    mres = moves_phase(ctx)
    failures += [f for f in mres["failures"] if f["finding"].startswith("C05:")]
    import vlib
    for f in mres["failures"]:
        if f["finding"].startswith("dup:"):
            vlib.log("NOTE (beyond the listed properties): client.DuplicateNode - %s %s" % (f["what"], f.get("case")))
    if isinstance(cov.get("extra"), dict):
        cov["extra"]["composite_operations"] = mres.get("extra")
    cov["evaluations"] += mres["evaluations"]
    cov["traces_validated_against_impl"] += mres["traces"]
    cov["role1"] = cov.get("role1", []) + [{"cfg": "MC_Store_ascoded_move.cfg", "must_violate": "MovesAtomicAsCoded", "violated": True}]
    cov["rule"] = RULES["C05"] + (" Behaviours: all sequences of 2 requests over root + 2 nodes, every request after a diamond / "
                                 "chain / mirror-with-deleted-edge start over root + 3 nodes (thorough: every 2 requests), and "
                                 "TLC-simulated sequences of 7 requests. evaluations = requests replayed; distinct_nontrivial = "
                                 "distinct (request, predicted reply) pairs. Moves and mirrors: TLC checks MovesAtomic / MirrorsAtomic "
                                 "(Store!Move, Store!Mirror: a refused composite operation leaves the store unchanged and publishes nothing) "
                                 "for every node, old and new parent from every reachable state, and that a move without the up-front check "
                                 "must fail; client.MoveNode / client.MirrorNode are called for every (node, old parent, new parent) from "
                                 "the start shapes: predicted refusals must return an error, leave the dump (points, edges, hashes) unchanged "
                                 "and publish nothing; accepted ones must give the predicted placements and hashes in step with the content. "
                                 "client.DuplicateNode (Store!DupCopies, beyond the listed properties, reported only): for every node and new "
                                 "parent from the start shapes the copy must be the tree of downward live paths with the points of the originals, "
                                 "refused when the node has no live placement; as coded the call never returns when the new parent lies below "
                                 "the node (the as-coded model predicts exactly these cases).")
    return {"coverage": cov, "failures": failures,
            "assumptions": ["CRC collisions abstracted away in the model (free XOR algebra); check (i) is concrete",
                            "writes with parent 'root' for non-root nodes (root replacement) are outside the alphabet"]}
