"""C15 - export / import (Export.tla)."""
import vlib
from props.common import role1, generate, harness


def run(ctx):
    t = ctx.tier
    vh = vlib.build_vh()
    states, trans, detail = role1(ctx, [("MC_Export", "MC_Export_%s.cfg" % t, {"timeout": 3000})])
    cases, n = generate(ctx, "MC_Export", "Gen_Export_%s.cfg" % t, seed=ctx.seed, timeout=3000)
    res = harness(ctx, vh, ["c15", "--cases", cases, "--seed", str(ctx.seed),
                            "--conc", "3" if t == "quick" else "6"], timeout=3400)
    cov = {
        "states": states, "transitions": trans, "role1": detail,
        "traces_validated_against_impl": res["traces"],
        "evaluations": res["evaluations"],
        "distinct_nontrivial": res["distinct_nontrivial"],
        "rule": "TLC checks Import(Export(t)) reproduces Live(t) (shape, types, points, edge points, id map incl. nodeID "
                "references inside and outside the tree, marker only on the top description, deleted children dropped), "
                "with and without id preservation, for every tree of the model (5 shapes up to depth 3, every combination of "
                "point patterns: keys ''/'0', array and map keys, tombstoned points, descriptions, nodeID references; edge "
                "point patterns; every deleted-flag combination). A seeded sample of the trees is built on a real instance "
                "with client.SendNode, exported with client.ExportNodes and imported with client.ImportNodes under another "
                "parent of the same instance (new ids) and on a second instance (ids preserved / new ids); the imported "
                "subtree is walked and compared with the predicted tree. Text atoms are concretised from a pool of 44 "
                "printable, Unicode and YAML-significant strings. evaluations = exports + imports; distinct_nontrivial = "
                "distinct trees replayed.",
        "samples": res["samples"], "extra": res.get("extra"),
    }
    return {"coverage": cov, "failures": res["failures"],
            "assumptions": ["a tombstone-0 edge point is noise (exporter documentation)",
                            "a nodeID reference to a node outside the exported tree is replaced consistently when it gets a fresh id"]}
