"""C09 - access control (Auth.tla)."""
import json

import vlib
from props.common import role1, harness, diverse


def run(ctx):
    t = ctx.tier
    vh = vlib.build_vh()
    states, trans, detail = role1(ctx, [("MC_Auth", "MC_Auth_%s.cfg" % t, {"timeout": 3000})])
    lines = []
    r = vlib.run_tlc(ctx.sc, "MC_Auth", "Gen_Auth_bfs2.cfg" if t == "quick" else "Gen_Auth_bfs3.cfg",
                     collect_json=True, timeout=3000)
    lines += r.lines
    n_sim = 60 if t == "quick" else 600
    r = vlib.run_tlc(ctx.sc, "MC_Auth", "Gen_Auth.cfg", collect_json=True, workers=1, simulate=n_sim, depth=20,
                     seed=ctx.seed, timeout=3000)
    gate = [x for x in r.lines if isinstance(x, dict)]
    sims = diverse([x for x in r.lines if isinstance(x, list)], n_sim, seed=ctx.seed)
    lines = [x for x in lines if isinstance(x, list)] + sims
    p = ctx.sc.path("c09.jsonl")
    with open(p, "w") as f:
        f.write(json.dumps(gate[0]) + "\n")
        for v in lines:
            f.write(json.dumps(v) + "\n")
    vlib.log("role2 MC_Auth: %d placement histories + gate table" % len(lines))
    res = harness(ctx, vh, ["c09", "--cases", p, "--seed", str(ctx.seed)], timeout=3400)
    cov = {
        "states": states, "transitions": trans, "role1": detail,
        "traces_validated_against_impl": res["traces"],
        "evaluations": res["evaluations"],
        "distinct_nontrivial": res["distinct_nontrivial"],
        "rule": "Gate: TLC prints Status401 for every (path class, Authorization class) pair - 13 path classes x 21 classes "
                "(absent, exact / wrong / prefixed token, valid bearer, expired, other key, alg none, HS384/HS512 with the "
                "instance's own key, RS256 header, tampered payload, truncated signature, no jti, garbage, missing 'Bearer', "
                "lower-case 'bearer', Basic) - and the full product with 7 methods and 3 bodies is sent to a real instance "
                "configured with a token; a bus spy must see no traffic caused by a request that is to be answered 401. Bus: "
                "nats.Connect without / with wrong / with the right token. Login and listing: TLC checks that the operational "
                "walk agrees with 'connected to the root through non-deleted edges' over all placement histories of the model "
                "(2 users, 2 groups; add / mirror / delete / move / re-add, groups deleted above users) and generates histories "
                "(all of length 2 or 3 plus simulated ones of length 6) that are replayed through client.SendNode / MirrorNode / "
                "MoveNode / DeleteNode; after every operation auth.user and POST /v1/auth must issue a token exactly for the "
                "eligible users and GET /v1/nodes with that token must list only nodes of the predicted subtrees. "
                "distinct_nontrivial = distinct gate triples (path, auth, method) + distinct (eligibility, listing) outcomes.",
        "samples": res["samples"], "extra": res.get("extra"),
    }
    return {"coverage": cov, "failures": res["failures"],
            "assumptions": ["the login path /v1/auth and static files are not gated (they cannot be)",
                            "expired / HS384 / HS512 tokens are minted with the instance's key read from its own store file"]}
