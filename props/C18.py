"""C18 - Modbus server request processing (Modbus.tla)."""
import vlib
from props.common import role1, generate, harness


def run(ctx):
    t = ctx.tier
    vh = vlib.build_vh()
    states, trans, detail = role1(ctx, [("MC_Modbus", "MC_Modbus_%s.cfg" % t, {"timeout": 3000})])
    cases, n = generate(ctx, "MC_Modbus", "Gen_Modbus_%s.cfg" % t, timeout=3000)
    res = harness(ctx, vh, ["c18", "--cases", cases])
    cov = {
        "states": states, "transitions": trans, "role1": detail,
        "traces_validated_against_impl": res["traces"],
        "evaluations": res["evaluations"],
        "distinct_nontrivial": res["distinct_nontrivial"],
        "rule": "TLC enumerates the product function code x address x quantity/value x length class "
                "(exact, short, long, wrong byte count, empty) x register map (sparse, dense, with validators, "
                "top of the address space), checks ReadsPure / SingleWriteAtomic / ResponseWellFormed / "
                "NormalOnlyIfClean on Modbus!Process, and prints the set of acceptable responses and the register "
                "file afterwards for each request; every request is replayed into the real PDU.ProcessRequest on a "
                "real modbus.Regs under recover() and a watchdog. distinct_nontrivial = distinct (function, map, "
                "observed response bytes) triples.",
        "exhaustive": True,
        "exhaustive_what": "the finite request domain of the tier's MC_Modbus config, not all byte strings",
        "samples": res["samples"],
        "extra": res.get("extra"),
    }
    return {"coverage": cov, "failures": res["failures"],
            "assumptions": ["request domain is a boundary-value product, not all byte strings",
                            "where V1.1b3 or C18 is silent the spec allows several outcomes (see Modbus.tla header)"]}
