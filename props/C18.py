"""C18 - Modbus server request processing (Modbus.tla)."""
import vlib
from props.common import role1, generate, harness


def run(ctx):
    t = ctx.tier
    vh = vlib.build_vh()
    states, trans, detail = role1(ctx, [("MC_Modbus", "MC_Modbus_%s.cfg" % t, {"timeout": 3000})])
    cases, n = generate(ctx, "MC_Modbus", "Gen_Modbus_%s.cfg" % t, timeout=3000)
    res = harness(ctx, vh, ["c18", "--cases", cases])
    # concurrent writers on one register map (ModbusConc.tla)
    r1 = vlib.run_tlc(ctx.sc, "ModbusConc", "MC_ModbusConc.cfg", timeout=600)
    r2 = vlib.run_tlc(ctx.sc, "ModbusConc", "MC_ModbusConc_split.cfg", allow_violation=True, timeout=600)
    if not r2.violation or "OwnCoilKept" not in r2.violation:
        raise vlib.MachineryError("ModbusConc: a coil write split into separately locked steps no longer violates OwnCoilKept")
    detail = detail + [{"cfg": "MC_ModbusConc.cfg", "distinct": r1.distinct},
                       {"cfg": "MC_ModbusConc_split.cfg", "must_violate": "OwnCoilKept", "violated": True}]
    rc = harness(ctx, vh, ["c18conc", "--rounds", "20000" if t == "quick" else "300000"])
    res["failures"] = list(res["failures"]) + list(rc["failures"])
    res["evaluations"] += rc["evaluations"]
    if isinstance(res.get("extra"), dict):
        res["extra"]["concurrent_writers"] = rc.get("extra")
    cov = {
        "states": states, "transitions": trans, "role1": detail,
        "traces_validated_against_impl": res["traces"],
        "evaluations": res["evaluations"],
        "distinct_nontrivial": res["distinct_nontrivial"],
        "rule": "TLC enumerates the product function code x address x quantity/value x length class "
                "(exact, short, long, wrong byte count, empty) x register map (sparse, dense, with validators, "
                "top of the address space), checks ReadsPure / SingleWriteAtomic / ResponseWellFormed / "
                "NormalOnlyIfClean on Modbus!Process, and prints the set of acceptable responses and the register "
                "file afterwards for each request; every request is replayed into the real PDU.ProcessRequest on a "
                "real modbus.Regs under recover() and a watchdog. distinct_nontrivial = distinct (function, map, "
                "observed response bytes) triples. Concurrency: TLC checks ModbusConc.tla (coil write = read-modify-write of the "
                "shared register; atomic: every owner's coil keeps what was acknowledged; split into separately locked steps: "
                "must fail); six goroutines toggle their own coil of one register through ProcessRequest on a shared modbus.Regs "
                "and read it back after every acknowledged write.",
        "exhaustive": True,
        "exhaustive_what": "the finite request domain of the tier's MC_Modbus config, not all byte strings",
        "samples": res["samples"],
        "extra": res.get("extra"),
    }
    return {"coverage": cov, "failures": res["failures"],
            "assumptions": ["request domain is a boundary-value product, not all byte strings",
                            "where V1.1b3 or C18 is silent the spec allows several outcomes (see Modbus.tla header)"]}
