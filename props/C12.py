"""C12 - bus wire encodings (Wire.tla)."""
import vlib
from props.common import role1, generate, harness


def run(ctx):
    t = ctx.tier
    vh = vlib.build_vh()
    states, trans, detail = role1(ctx, [("MC_Wire", "MC_Wire_%s.cfg" % t, {"timeout": 3000})])
    cases, n = generate(ctx, "MC_Wire", "Gen_Wire_%s.cfg" % t, timeout=3000)
    res = harness(ctx, vh, ["c12", "--cases", cases, "--seed", str(ctx.seed),
                            "--conc", "2" if t == "quick" else "8",
                            "--random", "20000" if t == "quick" else "400000"])
    cov = {
        "states": states, "transitions": trans, "role1": detail,
        "traces_validated_against_impl": res["traces"],
        "evaluations": res["evaluations"],
        "distinct_nontrivial": res["distinct_nontrivial"],
        "rule": "TLC enumerates all 3^8 point field patterns (zero / typical / extreme per field) and node patterns with "
                "0..2 points per list and checks Dec(Enc(x)) = x on the wire model (and that the as-coded encoder loses "
                "exactly the data field); every pattern is concretised (seeded extreme values: +-0, NaN payload, +-Inf, "
                "year 1/9999 times, Unicode, NUL, MaxInt32 tombstones) and pushed through the real ToPb/Marshal/PbDecode* "
                "functions incl. Node, Nodes, NodeRequest, NodesRequest, all fields compared (value by bits). Guard tables "
                "for DecodeSerialHrPayload and the four subject parsers. Arbitrary bytes: truncate/flip/insert at every "
                "offset of valid encodings plus seeded random strings into 12 decoders under recover(). "
                "distinct_nontrivial = distinct patterns replayed.",
        "exhaustive": True,
        "exhaustive_what": "field patterns; scalar values and arbitrary byte strings are sampled",
        "samples": res["samples"], "extra": res.get("extra"),
    }
    return {"coverage": cov, "failures": res["failures"],
            "assumptions": ["decoder totality over all byte strings is sampled, not decided (DESIGN.md section 10)",
                            "strings are valid UTF-8, times within year 1..9999 (representable on the wire)"]}
