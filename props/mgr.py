"""Shared runner for C07 / C08: record manager traces, validate them with TLC (Trace_Manager.tla)."""
import json
import os
import re

import vlib
from props.common import role1, harness, diverse


def run_mgr(ctx, prop):
    t = ctx.tier
    vh = vlib.build_vh()
    states, trans, detail = role1(ctx, [("Manager", "MC_Manager_%s.cfg" % t, {"timeout": 3000})])
    r = vlib.run_tlc(ctx.sc, "Manager", "MC_Manager_ascoded.cfg", allow_violation=True, timeout=900)
    if not r.violation or "Quiesce" not in r.violation:
        raise vlib.MachineryError("as-coded scan no longer violates Quiesce in Manager.tla")
    detail.append({"cfg": "MC_Manager_ascoded.cfg", "must_violate": "Quiesce", "violated": True})
    r = vlib.run_tlc(ctx.sc, "Manager", "MC_Manager_ascoded_sub.cfg", allow_violation=True, timeout=900)
    if not r.violation or "Quiesce" not in r.violation:
        raise vlib.MachineryError("subscribing without a second look at the children no longer violates Quiesce in Manager.tla")
    detail.append({"cfg": "MC_Manager_ascoded_sub.cfg", "must_violate": "Quiesce", "violated": True})
    # role 2: environment schedules
    scheds = []
    n_struct, n_write, n_kids = (10, 4, 6) if t == "quick" else (150, 60, 80)
    if prop == "C08":
        n_struct, n_write, n_kids = (4, 12, 2) if t == "quick" else (50, 200, 20)
    for cfg, n in (("Gen_ManagerEnv.cfg", n_struct), ("Gen_ManagerEnvWrite.cfg", n_write),
                   ("Gen_ManagerEnvKids.cfg", n_kids)):
        g = vlib.run_tlc(ctx.sc, "MC_ManagerEnv", cfg, collect_json=True, workers=1, simulate=n, depth=30,
                         seed=ctx.seed, timeout=3000)
        scheds += diverse(g.lines, n, seed=ctx.seed)
    if getattr(ctx, "replay", None):
        # replaying a recorded violation: the failing schedules themselves, several times each
        # (what the manager does with a schedule depends on goroutine timing)
        rp = json.load(open(ctx.replay))
        rs = [c["case"]["schedule"] for c in rp.get("cases", []) if c.get("case", {}).get("schedule")]
        if rs:
            scheds = [x for x in rs[:4] for _ in range(16)]
    p = ctx.sc.path("mgr.jsonl")
    with open(p, "w") as f:
        for s in scheds:
            f.write(json.dumps(s) + "\n")
    vlib.log("role2 MC_ManagerEnv: %d schedules" % len(scheds))
    trace = ctx.sc.path("mgr.ndjson")
    res = harness(ctx, vh, ["mgr", "--cases", p, "--seed", str(ctx.seed), "--trace", trace], timeout=3400)
    failures = list(res["failures"])
    if any(f["finding"] == "crash-in-simpleiot" for f in failures):
        # the code under test panicked in a goroutine of its own while the schedules were run: there is no
        # trace to validate, the crash is the outcome (C07: clients are stopped and the manager returns)
        cov = {"states": states, "transitions": trans, "role1": detail, "traces_validated_against_impl": 0,
               "evaluations": res["evaluations"], "distinct_nontrivial": res["distinct_nontrivial"],
               "samples": res["samples"], "extra": {"trace_events": 0, "traces_accepted": 0}}
        return cov, [f for f in failures if prop == "C07"]
    # role 3: trace validation, one schedule at a time after the first rejection so that every
    # schedule gets a verdict
    starts = res["extra"]["trace_starts"]
    lines = open(trace).read().splitlines()
    bounds = starts + [len(lines) + 1]
    accepted = 0

    def validate(chunk):
        tp = ctx.sc.path("chunk.ndjson")
        with open(tp, "w") as f:
            f.write("\n".join(chunk) + "\n")
        tr = vlib.tlc_trace(ctx.sc, "Trace_Manager", "Trace_Manager.cfg", tp, deque=False)
        m = re.search(r'"TRACE-REJECTED",\s*(\d+)', tr.out)
        if m:
            return int(m.group(1))
        if "No error has been found" not in tr.out:
            raise vlib.MachineryError("trace validation did not run:\n" + tr.out[-2000:])
        return 0

    rej = validate(lines)
    if rej == 0:
        accepted = len(starts)
    else:
        for i in range(len(starts)):
            chunk = lines[bounds[i] - 1:bounds[i + 1] - 1]
            at = validate(chunk)
            if at == 0:
                accepted += 1
                continue
            ev = json.loads(chunk[at - 1]) if at - 1 < len(chunk) else {"ev": "end of trace (Returned missing)"}
            sched = json.loads(chunk[0]).get("schedule")
            cls = classify(ev, chunk[:at])
            failures.append({"finding": cls,
                             "what": "recorded behaviour of the client manager is not allowed by Trace_Manager.tla: event %d %s"
                                     % (at, json.dumps(ev)),
                             "case": {"schedule": scheds[sched] if sched is not None and sched < len(scheds) else None,
                                      "trace_prefix": [json.loads(x) for x in chunk[max(0, at - 12):at]]}})
    cov = {
        "states": states, "transitions": trans, "role1": detail,
        "traces_validated_against_impl": len(starts),
        "evaluations": res["evaluations"],
        "distinct_nontrivial": len(starts),
        "samples": res["samples"],
        "extra": {"trace_events": len(lines), "traces_accepted": accepted},
    }
    c07 = {"quiescent", "construct", "lifecycle", "returned", "op-failed", "crash-in-simpleiot"}
    keep = [f for f in failures if (f["finding"].split(":")[0] in c07) == (prop == "C07") or f["finding"] in ("infra",)]
    return cov, keep


def classify(ev, prefix):
    e = ev.get("ev")
    if e in ("Points", "EdgePoints"):
        return "delivery"
    if e == "Holds":
        return "holds"
    if e == "Quiescent":
        # which clause failed is not known here; C08's clause only matters when deliveries are owed
        owed = any('"k":"write' in x for x in prefix[-40:])
        return "quiescent-delivery-owed" if owed and not any('"ev":"Run' in x for x in prefix[-6:]) else "quiescent"
    if e == "Construct":
        return "construct"
    if e in ("RunEnter", "RunExit"):
        return "lifecycle"
    return "returned"
