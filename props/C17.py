"""C17 - serial packets (Wire.tla) and serial link sessions (Serial.tla)."""
import json

import vlib
from props.common import role1, generate, harness, diverse


def sessions_phase(ctx, vh):
    """The link protocol around the packets (Serial.tla): scripted device sessions against the real
    serial client.  Only the C17 clause (a damaged packet is neither acknowledged nor forwarded)
    can fail the check; the rest is reported as agreement with the specification."""
    r1 = vlib.run_tlc(ctx.sc, "MC_Serial", "MC_Serial.cfg", timeout=900)
    r2 = vlib.run_tlc(ctx.sc, "MC_Serial", "MC_Serial_doc.cfg", allow_violation=True, timeout=900)
    if not r2.violation or "EveryValidAcked" not in r2.violation:
        raise vlib.MachineryError("MC_Serial_doc.cfg: the as-coded handling of empty packets no longer violates EveryValidAcked")
    n = 5 if ctx.tier == "quick" else 40
    g = vlib.run_tlc(ctx.sc, "MC_Serial", "Gen_Serial.cfg", collect_json=True, workers=1, simulate=n, depth=12,
                     seed=ctx.seed, timeout=900)
    sessions = diverse(g.lines, n, seed=ctx.seed)
    p = ctx.sc.path("serial.jsonl")
    with open(p, "w") as f:
        for s in sessions:
            f.write(json.dumps(s) + "\n")
    res = harness(ctx, vh, ["serial", "--cases", p], timeout=3000)
    detail = [{"cfg": "MC_Serial.cfg", "distinct": r1.distinct},
              {"cfg": "MC_Serial_doc.cfg", "must_violate": "EveryValidAcked", "violated": True}]
    return r1.distinct, detail, res


def run(ctx):
    t = ctx.tier
    vh = vlib.build_vh()
    states, trans, detail = role1(ctx, [("MC_Wire", "MC_Wire_%s.cfg" % t, {"timeout": 3000})])
    cases, n = generate(ctx, "MC_Wire", "Gen_Wire_%s.cfg" % t, timeout=3000)
    args = ["c17", "--cases", cases, "--seed", str(ctx.seed)]
    if t == "thorough":
        args += ["--bursts", "exhaustive", "--corrupt-packets", "2"]
    res = harness(ctx, vh, args, timeout=3400)
    sstates, sdetail, sres = sessions_phase(ctx, vh)
    res["failures"] = list(res["failures"]) + [f for f in sres["failures"] if f["finding"].startswith("C17:")]
    res["evaluations"] += sres["evaluations"]
    detail = detail + sdetail
    if isinstance(res.get("extra"), dict):
        res["extra"]["serial_sessions"] = sres.get("extra")
    cov = {
        "states": states, "transitions": trans, "role1": detail,
        "traces_validated_against_impl": res["traces"],
        "evaluations": res["evaluations"],
        "distinct_nontrivial": res["distinct_nontrivial"],
        "rule": "TLC enumerates every documented subject shape (blank, ack, phr, p.<id>, p.<id>.<parent>, ids over the "
                "tier's alphabet) and decides Wire!Hole (is the subject within a 1-/2-bit or <=16-bit-burst pattern of "
                "'log'?), plus all point patterns with their float32-narrowed expectation. Round trip through the real "
                "SerialEncode/SerialDecode/PbDecodeSerialPoints for seq in {0,1,127,255}. Corruption on real packets of "
                "every subject shape: all single-bit and all double-bit errors exhaustively; bursts of 3..16 bits at "
                "every start (quick: 4 interior patterns + 10^6 seeded, exhaustive over the subject field of Hole "
                "subjects; thorough: every interior pattern). A damaged packet that decodes must carry the original "
                "content. distinct_nontrivial = distinct round-trip packets (seq, subject, point patterns). Link sessions: TLC "
                "checks Serial.tla (acknowledge once with the packet's number, publish once, no echo to the device, consecutive host "
                "numbers, damaged packets silent) for every step from every host state; simulated sessions (valid, empty, "
                "damaged, short and high-rate frames from a scripted device on the fifo port of a real serial client, point "
                "batches written to the serial node) are run step by step; a damaged packet that is answered or forwarded "
                "fails the check, the other observations are counted as agreement with the specification.",
        "samples": res["samples"], "extra": res.get("extra"),
    }
    return {"coverage": cov, "failures": res["failures"],
            "assumptions": ["the CRC-16's detection guarantee is an axiom of the spec, tested per class on the real code",
                            "log packets are exempt by design (C17)"]}
