"""C17 - serial packets (Wire.tla)."""
import vlib
from props.common import role1, generate, harness


def run(ctx):
    t = ctx.tier
    vh = vlib.build_vh()
    states, trans, detail = role1(ctx, [("MC_Wire", "MC_Wire_%s.cfg" % t, {"timeout": 3000})])
    cases, n = generate(ctx, "MC_Wire", "Gen_Wire_%s.cfg" % t, timeout=3000)
    args = ["c17", "--cases", cases, "--seed", str(ctx.seed)]
    if t == "thorough":
        args += ["--bursts", "exhaustive", "--corrupt-packets", "2"]
    res = harness(ctx, vh, args, timeout=3400)
    cov = {
        "states": states, "transitions": trans, "role1": detail,
        "traces_validated_against_impl": res["traces"],
        "evaluations": res["evaluations"],
        "distinct_nontrivial": res["distinct_nontrivial"],
        "rule": "TLC enumerates every documented subject shape (blank, ack, phr, p.<id>, p.<id>.<parent>, ids over the "
                "tier's alphabet) and decides Wire!Hole (is the subject within a 1-/2-bit or <=16-bit-burst pattern of "
                "'log'?), plus all point patterns with their float32-narrowed expectation. Round trip through the real "
                "SerialEncode/SerialDecode/PbDecodeSerialPoints for seq in {0,1,127,255}. Corruption on real packets of "
                "every subject shape: all single-bit and all double-bit errors exhaustively; bursts of 3..16 bits at "
                "every start (quick: 4 interior patterns + 10^6 seeded, exhaustive over the subject field of Hole "
                "subjects; thorough: every interior pattern). A damaged packet that decodes must carry the original "
                "content. distinct_nontrivial = distinct round-trip packets (seq, subject, point patterns).",
        "samples": res["samples"], "extra": res.get("extra"),
    }
    return {"coverage": cov, "failures": res["failures"],
            "assumptions": ["the CRC-16's detection guarantee is an axiom of the spec, tested per class on the real code",
                            "log packets are exempt by design (C17)"]}
