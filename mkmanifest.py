#!/usr/bin/env python3
"""Regenerates MANIFEST.json from the table below (kept in one place so the
manifest stays valid while checks are added)."""
import json
import os
import subprocess

HERE = os.path.dirname(os.path.abspath(__file__))

# property -> (technique, level text, level note, design ref)
CLAIMED = {
    "C14": (
        "TLA+ spec Schedule.tla: TLC checks declarative Active = operational ImplActive on all model "
        "schedules; TLC-generated oracle table replayed into the real schedule.activeForTime",
        "TLC enumerates the whole model domain (window edges +-1 s, midnight, weekday/date filters, wrap) and "
        "every generated case is replayed into the real function on calendar anchors covering week, month, "
        "year ends and leap days, in four time zones. A pure function of small arguments: exhaustive "
        "model-based replay is the right level.",
        "Minute pairs are a boundary-value subset of 1440^2 (00:00, 00:01, 01:00, 11:59, 12:00, 23:59); "
        "well-formed HH:MM strings only; TLC's evaluation of the spec is the oracle.",
        "6/C14"),
    "C13": (
        "TLA+ spec Rule.tla: TLC checks operational fold = declarative reading for every batch from every reachable state; "
        "TLC-simulated configurations and batches replayed on a real instance with the real rule client, writes observed on p.*",
        "The rule state machine is model-checked over all single-condition configurations and batches; generated "
        "behaviours run against the real rule client inside a real instance (manager, store, bus) and every write it makes "
        "is compared with the prediction after each batch.",
        "Point-value conditions only (schedule windows are C14); real-time behaviour guarded by one slower re-run.",
        "6/C13"),
    "C15": (
        "TLA+ spec Export.tla: TLC checks Import(Export(t)) = Live(t) modulo the id map for every tree of the model; sampled "
        "trees replayed through client.ExportNodes / ImportNodes on real instances and compared with the predicted tree",
        "Tree shapes, key spellings, tombstones, id references and deleted children are enumerated by TLC; the real "
        "export/import is exercised on sampled trees with YAML-significant texts, same instance and across instances, "
        "with and without id preservation.",
        "Trees up to 4 nodes / depth 3; texts from a pool; one known finding (texts YAML reads as null / special floats / "
        "sequence entries).",
        "6/C15"),
    "C16": (
        "TLA+ spec Cobs.tla: TLC checks in-order/exactly-once delivery and damage containment over all "
        "device-read interleavings; TLC-generated wires replayed into the real CobsWrapper under all segmentations",
        "Every frame sequence and single damage event of the model is checked by TLC over all read sizes, then "
        "each wire is replayed into the real CobsWrapper.Read under every one of its 2^(n-1) segmentations; the "
        "spec's encoder is bound to the real writer byte for byte. Long frames (0xFF blocks, length guard) are a "
        "driver-generated family with the same oracle.",
        "Payload alphabet {0,1,2}, frames of 1..2 bytes, <=3 frames per stream in the TLC family; long frames "
        "sampled beyond all pairs of cuts; zero-length frames excluded (consumer discards them).",
        "6/C16"),
    "C01": (
        "TLA+ spec Store.tla (last-write-wins merge, collapse, key normalisation): TLC checks NewestWins over all delivery "
        "sequences; TLC-generated sequences and their re-orderings/re-batchings replayed through the NATS API of a real instance",
        "The merge is model-checked over every delivery sequence of the collision-centred alphabet; generated sequences are "
        "executed on a real instance with the complete read compared after every acknowledged write, followed by permuted, "
        "re-partitioned and duplicated deliveries of the same points that must read the same.",
        "3 identities, <=4 timestamps, batches <=2 in the model; concrete strings/values from pools; one known finding "
        "(sign of -0.0).",
        "6/C01"),
    "C02": (
        "TLA+ spec Sync.tla model-checked for Converges under fairness (as-coded variant must fail); TLC-generated environment "
        "schedules run on two real instances linked by the real sync client, checkpoints validated by TLC against Trace_Sync.tla",
        "All interleavings of two-sided writes, deletions and link loss are explored in the model; on the code, generated "
        "schedules are executed against two real instances and the converged state after every re-connection is validated.",
        "Real message timing is sampled; 4 identities (2 nodes x point/tombstone); convergence judged after <= 20 s.",
        "6/C02"),
    "C03": (
        "TLA+ spec Store.tla (XOR Merkle hash as free Boolean group): TLC checks declarative CalcHash = incremental update in "
        "every reachable state; behaviours replayed on a real instance with every stored hash compared with the prediction and "
        "an independent recomputation",
        "Every history over small graphs (points-first, edge-first, mirrors, diamonds, edges above populated subtrees, deletions, "
        "stale writes) is checked in the model and replayed on the real store, where each edge's Hash must equal both the "
        "documented definition recomputed from the replies and the image of the predicted atom set.",
        "Graphs over root + 3 nodes, 2 point identities; CRC collisions abstracted in the model; diamond cancellation is a "
        "known, design-inherent finding.",
        "6/C03"),
    "C05": (
        "TLA+ spec Store.tla (guards and refusals): TLC checks Acyclic/RootNeverDeleted/RefusedLeavesNoTrace for every request "
        "from every reachable state; behaviours replayed on a real instance observing reply, full tree dump and up.> behind a fence",
        "Refusal classes at every position on every small graph are enumerated by TLC and replayed; a refused request must be "
        "answered with an error, change nothing observable, publish nothing, and the instance must keep answering.",
        "Root + 3 nodes; absence on up.> is asserted behind an acknowledged no-op on the same subscription and connection.",
        "6/C05"),
    "C06": (
        "TLA+ spec Store.tla (rebroadcast fan-out): TLC checks operational republish = declarative live/any-ancestor set for "
        "every request from every reachable state; behaviours replayed on a real instance with a subscription to up.>",
        "All small graph shapes x written nodes x node/edge batches are enumerated; on the real instance the received subject "
        "set must equal the predicted set exactly (multiplicity >= 1 allowed).",
        "Root + 3 nodes; subjects of other behaviours sharing the instance are filtered by id prefix.",
        "6/C06"),
    "C07": (
        "TLA+ spec Manager.tla model-checked for Quiesce/StopStopsAll under fairness; event logs recorded from the real client "
        "manager (instrumented client via client.NewManager) validated by TLC against Trace_Manager.tla",
        "The manager's control loop is specified action by action and checked for safety and liveness; real schedules are sampled "
        "by the Go runtime, so the binding is trace validation: every recorded behaviour must be one the specification allows, "
        "including the state at every quiescence point.",
        "Schedules are seeded samples; the periodic rescan is accelerated by a build-tag hook; 2 managed nodes, 3 parents.",
        "6/C07"),
    "C08": (
        "TLA+ trace spec Trace_Manager.tla (owed-delivery queues per running client); callbacks recorded from the real manager "
        "validated by TLC",
        "Delivery order, completeness and the echo filter are checked on recorded callbacks of an instrumented client for batches "
        "with every origin class on own node, child, peer and unrelated nodes, including a mirrored client node.",
        "Batches are written to a quiescent system; optional deliveries (where C08 is silent) may or may not occur.",
        "6/C08"),
    "C09": (
        "TLA+ spec Auth.tla: gate table (Status401) and login eligibility / listing over placement histories checked by TLC; "
        "the full request product and TLC-generated histories replayed against a real instance over HTTP and NATS",
        "The gate is a finite table that is enumerated completely on the real HTTP API with forged, expired and "
        "wrong-algorithm tokens; login and listing are state-dependent and are checked after every step of generated "
        "placement histories.",
        "2 users / 2 groups in the model; token classes are those listed; absence of effects is asserted behind a marker "
        "message on the spy connection.",
        "6/C09"),
    "C10": (
        "TLA+ spec Points.tla: Encode/Decode/Diff transcribed per field kind; TLC checks round-trip and diff/merge laws "
        "for all values and ordered pairs; every case replayed on the real data.Encode/Decode/DiffPoints/MergePoints",
        "The case analysis of the codec (growth, trailing-tombstone trimming, key normalisation, nil-ness) is transcribed "
        "into TLA+ and checked exhaustively within the bounds; the same cases run on the real functions for every Go "
        "element type, with the laws themselves as the verdict.",
        "Lengths <= 3, 3 map keys, 2 struct fields; scalar values from seeded extreme-value pools; child lists are not "
        "modelled.",
        "6/C10"),
    "C11": (
        "TLA+ spec Points.tla: total Dec operator evaluated by TLC over the malformed-point alphabet (as-coded variant "
        "must reach panic); every case replayed on the real Decode/MergePoints/MergeEdgePoints under recover()",
        "Structured exhaustive enumeration of malformed points (keys, tombstones, lengths, priors) from the spec, run "
        "on the real decoders for every field kind and element type with extreme values; the transcription's predicted "
        "outcome is compared as a diagnostic (currently 100% agreement), the verdict is only what C11 states.",
        "Point lists of length <= 2; values sampled; panics inside reflect are the only crash class observable.",
        "6/C11"),
    "C12": (
        "TLA+ spec Wire.tla: field-wise wire model, TLC checks Dec(Enc(x))=x for all field patterns; patterns "
        "concretised and replayed through the real protobuf codecs; damage kinds at every offset into all decoders",
        "All 3^8 point field patterns and node patterns are enumerated by TLC and each is pushed through the real "
        "encode/marshal/decode chain with every field compared; decoder totality is exercised with systematic damage "
        "of valid encodings and seeded random strings (sampled: the spec structures the search, the oracle there is "
        "'value or error').",
        "Scalar values per atom come from extreme-value pools (seeded); arbitrary-bytes clause is sampled, not decided.",
        "6/C12"),
    "C17": (
        "TLA+ spec Wire.tla: serial round-trip expectations and the log-exemption Hole decided by TLC over all "
        "documented subjects; round trip and exhaustive 1-bit/2-bit/burst corruption replayed on the real SerialEncode/Decode",
        "TLC decides for which documented subjects the CRC exemption for 'log' can be reached by a detectable-class "
        "error (exactly p.g); the real codec is then driven with every single-bit and double-bit error and bursts up to "
        "16 bits on packets of every subject shape, and any delivered damaged packet is a violation unless it is the "
        "listed known finding.",
        "CRC arithmetic is axiomatised in the spec and tested on the code; bursts are exhaustive only in the thorough tier.",
        "6/C17"),
    "C18": (
        "TLA+ spec Modbus.tla (Process per Modbus V1.1b3): TLC checks purity/atomicity/well-formedness on the "
        "request domain and prints the allowed responses; every request replayed into the real PDU.ProcessRequest",
        "The whole boundary-value request domain (function codes, addresses, quantities around every protocol limit, "
        "length classes, register maps with validators and at the top of the address space) is enumerated by TLC and "
        "each request is executed on the real server code with the response bytes and the register file compared "
        "with the specification's allowed outcomes.",
        "Not all byte strings: a finite product of boundary values; outcomes the protocol leaves open are accepted "
        "in either form (listed in Modbus.tla).",
        "6/C18"),
    "C19": (
        "TLA+ spec ModbusSession.tla: TLC checks read-equals-file and tamper-is-error on all small sessions; "
        "TLC-simulated sessions replayed through real Client+Server over RTU and TCP framing with a tampering MITM",
        "Stateful sessions (writes then reads) with predicted return values after every client call are generated by "
        "TLC and replayed against the real client, transports and server; damaged, short and mismatched frames must "
        "be rejected. Conversions: inverse laws on all 2^16 words and seeded 32-bit values.",
        "Sessions are seeded samples of the model (exhaustive only for the small role-1 model); real timing is "
        "guarded by a 10x slower re-run before a disagreement is reported.",
        "6/C19"),
    "C04": (
        "TLA+ spec StoreTxn.tla (transaction steps, Crash in every state, recovery) model-checked; crash experiments on a real "
        "child-process instance (enumerated hook sites x occurrences + random SIGKILL) validated by TLC against Trace_StoreTxn.tla",
        "Crash points are enumerated deterministically at every step the transaction model distinguishes and sampled at "
        "random instants inside SQLite's own work; every experiment's recovered state is validated against the model's "
        "invariants (durability, atomicity, hash consistency, stable root and key).",
        "SIGKILL only; batches are single requests; 10 batches per history.",
        "6/C04"),
    "C20": (
        "TLA+ spec Concurrent.tla (call/linearise/return on an LWW store) model-checked; histories recorded from concurrent "
        "clients of a real instance (-race build) validated by TLC against Trace_Concurrent.tla",
        "Interleavings are exhaustive in the model; on the code many seeded concurrent runs are recorded and each is validated "
        "completely (visibility, monotonic reads, replies, final content, hashes, shutdown, re-open, race detector).",
        "The Go scheduler picks the real interleavings; 12 identities on 3 nodes; races are only seen if they occur.",
        "6/C20"),
}

NOT_YET = "check not built yet in this round (planned, see DESIGN.md section 6)"


def main():
    props = [json.loads(l) for l in open(os.path.join(HERE, "properties.jsonl"))]
    hooks = subprocess.run(["git", "-C", "/repo", "log", "--format=%H %s"], stdout=subprocess.PIPE,
                           text=True).stdout.splitlines()
    hook_commits = [l.split()[0] for l in hooks if l.split(" ", 1)[1].startswith("verif:")]
    checks, na = [], []
    for p in props:
        i = p["id"]
        if i in CLAIMED:
            tech, text, note, ref = CLAIMED[i]
            checks.append({
                "property_id": i,
                "quick_cmd": "./check %s --tier quick" % i,
                "thorough_cmd": "./check %s --tier thorough" % i,
                "evidence_file": "/verif/evidence/%s.json" % i,
                "replay_cmd_template": "./check %s --replay {path}" % i,
                "engine": "tlc+vh",
                "level_claimed": {"category": "model_checking", "text": text, "design_ref": ref},
                "level_note": note,
                "technique": tech,
            })
        else:
            na.append({"property_id": i, "reason": NOT_YET})
    m = {
        "version": 1,
        "setup_cmd": "./setup.sh",
        "hooks": {
            "guard": "verif",
            "enable": "go build -tags verif (harness/cmd/vh is built with the tag against /repo through a replace directive)",
            "baseline_off_cmd": "cd /repo && GOFLAGS=-mod=mod GOPROXY=off GOSUMDB=off go test -vet=off -count=1 -timeout 25m ./...",
            "source_commits": hook_commits,
            "add_only": True,
        },
        "engines": [
            {"name": "tlc+vh", "path": "/verif/check",
             "serves_properties": sorted(CLAIMED),
             "kind_free_text": "TLA+ specification in /verif/spec checked with TLC (role 1), TLC-generated "
                               "behaviours replayed into the real Go code (role 2) and traces recorded from the "
                               "real code validated by TLC (role 3); Go harness /verif/harness/cmd/vh"},
        ],
        "checks": checks,
        "not_applicable": na,
        "notes": "See DESIGN.md. Exit 2 of a check = machinery error (never a verdict).",
    }
    with open(os.path.join(HERE, "MANIFEST.json"), "w") as f:
        json.dump(m, f, indent=1)
        f.write("\n")


if __name__ == "__main__":
    main()
