#!/usr/bin/env python3
"""Regenerates MANIFEST.json from the table below (kept in one place so the
manifest stays valid while checks are added)."""
import json
import os
import subprocess

HERE = os.path.dirname(os.path.abspath(__file__))

# property -> (technique, level text, level note, design ref)
CLAIMED = {
    "C14": (
        "TLA+ spec Schedule.tla: TLC checks declarative Active = operational ImplActive on all model "
        "schedules; TLC-generated oracle table replayed into the real schedule.activeForTime",
        "TLC enumerates the whole model domain (window edges +-1 s, midnight, weekday/date filters, wrap) and "
        "every generated case is replayed into the real function on calendar anchors covering week, month, "
        "year ends and leap days, in four time zones. A pure function of small arguments: exhaustive "
        "model-based replay is the right level.",
        "Minute pairs are a boundary-value subset of 1440^2 (00:00, 00:01, 01:00, 11:59, 12:00, 23:59); "
        "well-formed HH:MM strings only; TLC's evaluation of the spec is the oracle.",
        "6/C14"),
    "C16": (
        "TLA+ spec Cobs.tla: TLC checks in-order/exactly-once delivery and damage containment over all "
        "device-read interleavings; TLC-generated wires replayed into the real CobsWrapper under all segmentations",
        "Every frame sequence and single damage event of the model is checked by TLC over all read sizes, then "
        "each wire is replayed into the real CobsWrapper.Read under every one of its 2^(n-1) segmentations; the "
        "spec's encoder is bound to the real writer byte for byte. Long frames (0xFF blocks, length guard) are a "
        "driver-generated family with the same oracle.",
        "Payload alphabet {0,1,2}, frames of 1..2 bytes, <=3 frames per stream in the TLC family; long frames "
        "sampled beyond all pairs of cuts; zero-length frames excluded (consumer discards them).",
        "6/C16"),
}

NOT_YET = "check not built yet in this round (planned, see DESIGN.md section 6)"


def main():
    props = [json.loads(l) for l in open(os.path.join(HERE, "properties.jsonl"))]
    hooks = subprocess.run(["git", "-C", "/repo", "log", "--format=%H %s"], stdout=subprocess.PIPE,
                           text=True).stdout.splitlines()
    hook_commits = [l.split()[0] for l in hooks if l.split(" ", 1)[1].startswith("verif:")]
    checks, na = [], []
    for p in props:
        i = p["id"]
        if i in CLAIMED:
            tech, text, note, ref = CLAIMED[i]
            checks.append({
                "property_id": i,
                "quick_cmd": "./check %s --tier quick" % i,
                "thorough_cmd": "./check %s --tier thorough" % i,
                "evidence_file": "/verif/evidence/%s.json" % i,
                "replay_cmd_template": "./check %s --replay {path}" % i,
                "engine": "tlc+vh",
                "level_claimed": {"category": "model_checking", "text": text, "design_ref": ref},
                "level_note": note,
                "technique": tech,
            })
        else:
            na.append({"property_id": i, "reason": NOT_YET})
    m = {
        "version": 1,
        "setup_cmd": "./setup.sh",
        "hooks": {
            "guard": "verif",
            "enable": "go build -tags verif (harness/cmd/vh is built with the tag against /repo through a replace directive)",
            "baseline_off_cmd": "cd /repo && GOFLAGS=-mod=mod GOPROXY=off GOSUMDB=off go test -vet=off -count=1 -timeout 25m ./...",
            "source_commits": hook_commits,
            "add_only": True,
        },
        "engines": [
            {"name": "tlc+vh", "path": "/verif/check",
             "serves_properties": sorted(CLAIMED),
             "kind_free_text": "TLA+ specification in /verif/spec checked with TLC (role 1), TLC-generated "
                               "behaviours replayed into the real Go code (role 2) and traces recorded from the "
                               "real code validated by TLC (role 3); Go harness /verif/harness/cmd/vh"},
        ],
        "checks": checks,
        "not_applicable": na,
        "notes": "See DESIGN.md. Exit 2 of a check = machinery error (never a verdict).",
    }
    with open(os.path.join(HERE, "MANIFEST.json"), "w") as f:
        json.dump(m, f, indent=1)
        f.write("\n")


if __name__ == "__main__":
    main()
