package main

import (
	"context"
	"encoding/json"
	"flag"
	"fmt"
	"github.com/simpleiot/simpleiot/server"
	"math"
	"math/rand"
	"os"
	"sort"
	"strconv"
	"strings"
	"sync"
	"sync/atomic"
	"time"

	"github.com/simpleiot/simpleiot/client"
	"github.com/simpleiot/simpleiot/data"
)

// C20: N goroutines, each with its own NATS connection, issue seeded random
// writes, edge writes, reads and verification requests against one real
// in-process instance (build with -race).  Calls and returns are stamped with
// one atomic counter; the history is validated by TLC (Trace_Concurrent.tla).

func init() {
	commands["c20"] = func(args []string) error {
		fs := flag.NewFlagSet("c20", flag.ExitOnError)
		out := fs.String("out", "", "")
		traceOut := fs.String("trace", "", "")
		seed := fs.Int64("seed", 1, "")
		histories := fs.Int("histories", 4, "")
		clients := fs.Int("clients", 4, "")
		opsPer := fs.Int("ops", 8, "")
		raceLog := fs.String("race-log", "", "prefix of the race detector's log files (GORACE log_path)")
		fs.Parse(args)
		quietLogs()
		res := &Result{Extra: map[string]any{}}
		f, err := os.Create(*traceOut)
		if err != nil {
			return err
		}
		defer f.Close()
		enc := func(e map[string]any) {
			b, _ := json.Marshal(e)
			f.Write(append(b, '\n'))
		}
		total := 0
		for h := 0; h < *histories; h++ {
			in, err := startInstance(instOpts{})
			if err != nil {
				return err
			}
			var seq atomic.Int64
			var tsCounter atomic.Int64
			var mu sync.Mutex
			var events []map[string]any
			logEv := func(e map[string]any) {
				s := seq.Add(1)
				e["seq"] = s
				mu.Lock()
				events = append(events, e)
				mu.Unlock()
			}
			base := time.Now().Add(-time.Hour).Truncate(time.Second)
			nodes := []string{"n1", "n2", "n3"}
			setup, err := in.connect()
			if err != nil {
				return err
			}
			for _, n := range nodes {
				if err := client.SendNode(setup, data.NodeEdge{ID: n, Parent: in.root.ID, Type: "device"}, ""); err != nil {
					return err
				}
			}
			identOf := func(n, typ string, edge bool) string {
				if edge {
					return n + "|edge|" + typ
				}
				return n + "|" + typ
			}
			// timestamps -> ts numbers: time = base + ts microseconds
			tsOf := func(t time.Time) int { return int(t.Sub(base) / time.Microsecond) }
			readNode := func(c int, nc interface{}) {}
			_ = readNode
			var wg sync.WaitGroup
			for c := 0; c < *clients; c++ {
				wg.Add(1)
				go func(c int) {
					defer wg.Done()
					nc, err := in.connect()
					if err != nil {
						logEv(map[string]any{"ev": "Call", "c": fmt.Sprint("c", c), "op": -1, "kind": "verify", "id": "", "ts": 0})
						logEv(map[string]any{"ev": "Ret", "c": fmt.Sprint("c", c), "op": -1, "ok": false, "res": map[string]int{}, "err": err.Error()})
						return
					}
					defer nc.Close()
					rng := rand.New(rand.NewSource(*seed*1000 + int64(h)*100 + int64(c)))
					cname := fmt.Sprint("c", c)
					for k := 0; k < *opsPer; k++ {
						n := nodes[rng.Intn(len(nodes))]
						typ := []string{"a", "b"}[rng.Intn(2)]
						switch x := rng.Intn(12); {
						case x < 4: // node point write
							ts := int(tsCounter.Add(1))
							id := identOf(n, typ, false)
							logEv(map[string]any{"ev": "Call", "c": cname, "op": k, "kind": "write", "id": id, "ts": ts})
							p := data.Point{Type: typ, Key: "0", Time: base.Add(time.Duration(ts) * time.Microsecond), Value: float64(c*1000 + k), Origin: cname}
							err := client.SendNodePoint(nc, n, p, true)
							logEv(map[string]any{"ev": "Ret", "c": cname, "op": k, "ok": err == nil, "res": map[string]int{}, "err": fmt.Sprint(err)})
						case x < 6: // edge point write
							ts := int(tsCounter.Add(1))
							id := identOf(n, typ, true)
							logEv(map[string]any{"ev": "Call", "c": cname, "op": k, "kind": "write", "id": id, "ts": ts})
							p := data.Point{Type: typ, Key: "0", Time: base.Add(time.Duration(ts) * time.Microsecond), Value: float64(c*1000 + k), Origin: cname}
							err := client.SendEdgePoint(nc, n, in.root.ID, p, true)
							logEv(map[string]any{"ev": "Ret", "c": cname, "op": k, "ok": err == nil, "res": map[string]int{}, "err": fmt.Sprint(err)})
						case x < 9: // read
							logEv(map[string]any{"ev": "Call", "c": cname, "op": k, "kind": "read", "id": n, "ts": 0})
							ns, err := client.GetNodes(nc, in.root.ID, n, "", false)
							r := map[string]int{}
							for _, t := range []string{"a", "b"} {
								r[identOf(n, t, false)] = 0
								r[identOf(n, t, true)] = 0
							}
							if err == nil && len(ns) == 1 {
								for _, p := range ns[0].Points {
									if p.Type == "a" || p.Type == "b" {
										r[identOf(n, p.Type, false)] = tsOf(p.Time)
									}
								}
								for _, p := range ns[0].EdgePoints {
									if p.Type == "a" || p.Type == "b" {
										r[identOf(n, p.Type, true)] = tsOf(p.Time)
									}
								}
							}
							logEv(map[string]any{"ev": "Ret", "c": cname, "op": k, "ok": err == nil && len(ns) == 1, "res": r, "err": fmt.Sprint(err)})
						case x == 11: // a request the store refuses (four kinds, taking turns):
							// answered with an error - logged as a "verify"-kind call that is ok when refused
							logEv(map[string]any{"ev": "Call", "c": cname, "op": k, "kind": "verify", "id": "", "ts": 0})
							p := data.Point{Type: data.PointTypeTombstone, Value: 0, Time: time.Now(), Origin: cname}
							var err error
							switch k % 4 {
							case 0: // first edge point of an edge without a node type
								err = client.SendEdgePoint(nc, fmt.Sprintf("ghost-%d-%d-%d", h, c, k), n, p, true)
							case 1: // an edge that would put the root below one of its children (a cycle)
								err = client.SendEdgePoints(nc, in.root.ID, n, data.Points{p, {Type: data.PointTypeNodeType, Text: "device", Origin: cname}}, true)
							case 2: // a value the store cannot hold
								err = client.SendNodePoint(nc, n, data.Point{Type: "nan", Key: "0", Time: time.Now(), Value: math.NaN(), Origin: cname}, true)
							default: // a node below itself
								err = client.SendEdgePoints(nc, n, n, data.Points{p, {Type: data.PointTypeNodeType, Text: "device", Origin: cname}}, true)
							}
							refused := err != nil && !strings.Contains(err.Error(), "timeout")
							logEv(map[string]any{"ev": "Ret", "c": cname, "op": k, "ok": refused, "res": map[string]int{}, "err": fmt.Sprint(err)})
						case x == 10: // maintenance request (verification that repairs), served by another subscription
							logEv(map[string]any{"ev": "Call", "c": cname, "op": k, "kind": "verify", "id": "", "ts": 0})
							err := client.AdminStoreMaint(nc)
							logEv(map[string]any{"ev": "Ret", "c": cname, "op": k, "ok": err == nil, "res": map[string]int{}, "err": fmt.Sprint(err)})
						default: // verification request
							logEv(map[string]any{"ev": "Call", "c": cname, "op": k, "kind": "verify", "id": "", "ts": 0})
							err := client.AdminStoreVerify(nc)
							logEv(map[string]any{"ev": "Ret", "c": cname, "op": k, "ok": err == nil, "res": map[string]int{}, "err": fmt.Sprint(err)})
						}
					}
				}(c)
			}
			// reads of the root racing the insertion of a new node below "root" is what the anchors name
			// (meta.RootID); kept to the last history so that the others keep their root
			if h == *histories-1 {
				wg.Add(2)
				var inserted atomic.Bool
				go func() {
					defer wg.Done()
					nc, err := in.connect()
					if err != nil {
						return
					}
					defer nc.Close()
					after := 0
					for k := 0; k < 2000 && after < 20; k++ {
						client.GetNodes(nc, "root", "all", "", false)
						if inserted.Load() {
							after++
						}
					}
				}()
				go func() {
					defer wg.Done()
					defer inserted.Store(true)
					nc, err := in.connect()
					if err != nil {
						return
					}
					defer nc.Close()
					time.Sleep(20 * time.Millisecond)
					client.SendEdgePoints(nc, "second-root", "root", data.Points{{Type: data.PointTypeTombstone, Value: 0},
						{Type: data.PointTypeNodeType, Text: "device"}}, true)
				}()
			}
			done := make(chan struct{})
			go func() { wg.Wait(); close(done) }()
			select {
			case <-done:
			case <-time.After(60 * time.Second):
				// some call never returned; the trace will lack its Ret
			}
			// final state
			final := map[string]int{}
			hashOK := true
			for _, n := range nodes {
				ns, err := client.GetNodes(setup, in.root.ID, n, "", false)
				for _, t := range []string{"a", "b"} {
					final[identOf(n, t, false)] = 0
					final[identOf(n, t, true)] = 0
				}
				if err != nil || len(ns) != 1 {
					hashOK = false
					continue
				}
				for _, p := range ns[0].Points {
					if p.Type == "a" || p.Type == "b" {
						final[identOf(n, p.Type, false)] = tsOf(p.Time)
					}
				}
				for _, p := range ns[0].EdgePoints {
					if p.Type == "a" || p.Type == "b" {
						final[identOf(n, p.Type, true)] = tsOf(p.Time)
					}
				}
				// hash by the documented definition
				var hsh uint32
				for _, p := range ns[0].Points {
					hsh ^= docCRC(p.Time, p.Type, p.Key, p.Text, p.Value)
				}
				for _, p := range ns[0].EdgePoints {
					hsh ^= docCRC(p.Time, p.Type, p.Key, p.Text, p.Value)
				}
				if hsh != ns[0].Hash {
					hashOK = false
				}
			}
			if err := client.AdminStoreVerify(setup); err != nil {
				hashOK = false
			}
			setup.Close()
			file := in.opts.StoreFile
			stopOK := in.stop(false)
			reopenOK := false
			if stopOK {
				in2, err := startInstance(instOpts{dir: in.dir, storeFile: file})
				if err == nil {
					reopenOK = true
					nc2, err := in2.connect()
					if err == nil {
						for _, n := range nodes {
							ns, err := client.GetNodes(nc2, "all", n, "", false)
							if err != nil || len(ns) != 1 {
								reopenOK = false
								continue
							}
							for _, p := range ns[0].Points {
								if (p.Type == "a" || p.Type == "b") && final[identOf(n, p.Type, false)] != tsOf(p.Time) {
									reopenOK = false
								}
							}
						}
						nc2.Close()
					} else {
						reopenOK = false
					}
					in2.stop(true)
				}
			} else {
				os.RemoveAll(in.dir)
			}
			races := 0
			if *raceLog != "" {
				matches, _ := filepathGlob(*raceLog + "*")
				for _, m := range matches {
					b, _ := os.ReadFile(m)
					n := countRaces(string(b))
					races += n
					if n > 0 {
						txt := string(b)
						if len(txt) > 6000 {
							txt = txt[:6000]
						}
						res.Extra[fmt.Sprintf("race_report_history_%d", h)] = txt
					}
					os.Remove(m) // reports are attributed to the history they occurred in
				}
			}
			sort.Slice(events, func(i, j int) bool { return events[i]["seq"].(int64) < events[j]["seq"].(int64) })
			enc(map[string]any{"ev": "Reset", "history": h})
			for _, e := range events {
				enc(e)
			}
			enc(map[string]any{"ev": "Final", "st": final, "hashOK": hashOK, "stopOK": stopOK, "reopenOK": reopenOK, "races": races})
			total += len(events)
			if h < 2 {
				res.sample(map[string]any{"history": h, "first_events": events[:min(len(events), 12)], "final": final}, 2)
			}
		}
		// ---- shutdown at every moment of the start-up: Stop called d after Run was started must make Run
		// return, and the store file must open again (the load above only ever stops a settled instance)
		for _, d := range []time.Duration{0, time.Millisecond, 5 * time.Millisecond, 20 * time.Millisecond, 60 * time.Millisecond, 200 * time.Millisecond} {
			if what := c20StopDuringStart(d); what != "" {
				if strings.HasPrefix(what, "infra:") {
					res.Extra["stop_during_start_not_run"] = what
				} else {
					res.fail(Failure{Finding: "stop-during-start", What: what})
				}
			}
			total++
		}
		res.Evaluations = total
		res.Traces = *histories
		res.DistinctNontrivial = *histories
		return res.write(*out)
	}
}

// c20StopDuringStart starts an instance the production way and calls Stop after the given delay
// (after WaitStart for delay 0).
func c20StopDuringStart(delay time.Duration) string {
	dir, err := os.MkdirTemp("", "verif-c20-stop-")
	if err != nil {
		return "infra: " + err.Error()
	}
	defer os.RemoveAll(dir)
	ports, err := freePorts(4)
	if err != nil {
		return "infra: " + err.Error()
	}
	opts := server.Options{StoreFile: dir + "/siot.sqlite", NatsPort: ports[0], HTTPPort: strconv.Itoa(ports[1]), NatsHTTPPort: ports[2],
		NatsWSPort: ports[3], NatsServer: fmt.Sprintf("nats://127.0.0.1:%d", ports[0]), ID: "stop-inst"}
	s, nc, err := server.NewServer(opts)
	if err != nil {
		return "infra: NewServer: " + err.Error()
	}
	done := make(chan error, 1)
	go func() { done <- s.Run() }()
	if delay == 0 {
		ctx, cancel := context.WithTimeout(context.Background(), 10*time.Second)
		err := s.WaitStart(ctx)
		cancel()
		if err != nil {
			return "infra: WaitStart: " + err.Error()
		}
	} else {
		time.Sleep(delay)
	}
	s.Stop(nil)
	select {
	case <-done:
	case <-time.After(20 * time.Second):
		return fmt.Sprintf("Stop called %v after the instance was started is lost: Run has not returned 20 s later", delay)
	}
	nc.Close()
	in2, err := startInstance(instOpts{dir: dir, id: "stop-inst"})
	if err != nil {
		return fmt.Sprintf("after Stop %v into the start-up the store file does not open again: %v", delay, err)
	}
	in2.stop(false)
	return ""
}
