package main

import (
	"bytes"
	"errors"
	"flag"
	"fmt"
	"io"
	"math/rand"
	"runtime"
	"sync"

	"github.com/simpleiot/simpleiot/client"
)

// C16: replay the cases printed by TLC (Cobs.tla) into the real CobsWrapper.
// The specification's DevRead nondeterminism (how the wire is cut into device
// reads) is expanded exhaustively here: every segmentation of every wire.

type c16Dmg struct {
	Kind string `json:"kind"`
	I    int    `json:"i"`
	V    int    `json:"v"`
}

type c16Case struct {
	Frames [][]int `json:"frames"`
	Lead   bool    `json:"lead"`
	Clean  []int   `json:"clean"`
	Wire   []int   `json:"wire"`
	Dmg    c16Dmg  `json:"dmg"`
	Pre    int     `json:"pre"`
	Post   int     `json:"post"`
}

// scripted device: hands out the wire in the given chunks, then io.EOF.
type c16Dev struct {
	chunks  [][]byte
	written bytes.Buffer
}

func (d *c16Dev) Read(p []byte) (int, error) {
	for len(d.chunks) > 0 && len(d.chunks[0]) == 0 {
		d.chunks = d.chunks[1:]
	}
	if len(d.chunks) == 0 {
		return 0, io.EOF
	}
	n := copy(p, d.chunks[0])
	d.chunks[0] = d.chunks[0][n:]
	return n, nil
}
func (d *c16Dev) Write(p []byte) (int, error) { return d.written.Write(p) }
func (d *c16Dev) Close() error                { return nil }

func toBytes(a []int) []byte {
	b := make([]byte, len(a))
	for i, v := range a {
		b[i] = byte(v)
	}
	return b
}

type c16Result struct {
	Frame []byte
	Err   string
}

// readAll drives the real wrapper until io.EOF.  hang=true if it does not stop.
func c16ReadAll(wire []byte, cuts []int, maxLen int) (res []c16Result, zeroReads int, hang bool, panicked any) {
	defer func() {
		if r := recover(); r != nil {
			panicked = r
		}
	}()
	dev := &c16Dev{}
	prev := 0
	for _, c := range cuts {
		dev.chunks = append(dev.chunks, wire[prev:c])
		prev = c
	}
	dev.chunks = append(dev.chunks, wire[prev:])
	cw := client.NewCobsWrapper(dev, maxLen)
	limit := 4*len(wire) + 16
	for k := 0; ; k++ {
		if k > limit {
			return res, zeroReads, true, nil
		}
		buf := make([]byte, maxLen)
		n, err := cw.Read(buf)
		if err == io.EOF {
			return
		}
		if err != nil {
			res = append(res, c16Result{Err: err.Error()})
			continue
		}
		if n <= 0 {
			zeroReads++ // the consumer (serial.go listener) discards these
			continue
		}
		res = append(res, c16Result{Frame: append([]byte(nil), buf[:n]...)})
	}
}

// judge applies the oracle Pre ++ X ++ Post.  exact: no damage, so X must be empty.
// refCobsEncode: standard COBS (Cheshire & Baker) with the trailing delimiter, written independently of
// the code under test: a block of 254 non-zero bytes (code 0xff) implies no zero.
func refCobsEncode(p []byte) []byte {
	out := []byte{0}
	code := 0 // index of the current block's code byte
	n := byte(1)
	for i, b := range p {
		if b == 0 {
			out[code] = n
			code = len(out)
			out = append(out, 0)
			n = 1
			continue
		}
		out = append(out, b)
		n++
		if n == 0xff {
			out[code] = n
			if i == len(p)-1 {
				return append(out, 0)
			}
			code = len(out)
			out = append(out, 0)
			n = 1
		}
	}
	out[code] = n
	return append(out, 0)
}

func c16Judge(frames [][]byte, pre, post int, exact bool, res []c16Result) string {
	if len(res) < pre+post {
		return fmt.Sprintf("only %d results for %d frames that must be delivered", len(res), pre+post)
	}
	if exact && len(res) != pre+post {
		return fmt.Sprintf("%d results for %d frames written", len(res), pre+post)
	}
	for k := 0; k < pre; k++ {
		if res[k].Err != "" || !bytes.Equal(res[k].Frame, frames[k]) {
			return fmt.Sprintf("result %d is not frame %d intact", k, k)
		}
	}
	for k := 0; k < post; k++ {
		r := res[len(res)-post+k]
		f := frames[len(frames)-post+k]
		if r.Err != "" || !bytes.Equal(r.Frame, f) {
			return fmt.Sprintf("frame %d (after the damage and the next delimiter) not delivered intact", len(frames)-post+k)
		}
	}
	return ""
}

func c16Show(res []c16Result) []any {
	var out []any
	for _, r := range res {
		if r.Err != "" {
			out = append(out, "err:"+r.Err)
		} else {
			out = append(out, fmt.Sprintf("%x", r.Frame))
		}
	}
	return out
}

func cutsFromMask(mask uint64, n int) []int {
	var cuts []int
	for i := 1; i < n; i++ {
		if mask&(1<<(i-1)) != 0 {
			cuts = append(cuts, i)
		}
	}
	return cuts
}

func init() {
	commands["c16"] = func(args []string) error {
		fs := flag.NewFlagSet("c16", flag.ExitOnError)
		casesF := fs.String("cases", "", "")
		out := fs.String("out", "", "")
		seed := fs.Int64("seed", 1, "")
		maxExh := fs.Int("max-exhaustive", 16, "wires up to this length get all 2^(n-1) segmentations")
		maxExhDmg := fs.Int("max-exhaustive-damage", 16, "same, for wires carrying a damage event")
		sampled := fs.Int("sampled", 2000, "segmentations sampled for longer wires")
		long := fs.String("long", "quick", "long-frame family: quick|thorough|off")
		fs.Parse(args)
		cs, err := readJSONLines[c16Case](*casesF)
		if err != nil {
			return err
		}
		res := &Result{Extra: map[string]any{}}
		var mu sync.Mutex
		var evals, nontriv, zeroReads, segExh int
		distinct := map[string]bool{}

		check := func(c *c16Case, frames [][]byte, wire []byte, cuts []int, maxLen int, class string) {
			r, z, hang, pan := c16ReadAll(wire, cuts, maxLen)
			what := ""
			if pan != nil {
				what = fmt.Sprintf("panic: %v", pan)
			} else if hang {
				what = "Read never reached the end of the stream"
			} else {
				what = c16Judge(frames, c.Pre, c.Post, c.Dmg.Kind == "none", r)
			}
			mu.Lock()
			evals++
			zeroReads += z
			mu.Unlock()
			if what != "" {
				var fr []string
				for _, f := range frames {
					fr = append(fr, fmt.Sprintf("%x", f))
				}
				res.fail(Failure{Finding: class, What: what,
					Case:     map[string]any{"frames": fr, "lead": c.Lead, "wire": fmt.Sprintf("%x", wire), "cuts": cuts, "damage": c.Dmg, "maxLen": maxLen},
					Expected: map[string]any{"first": c.Pre, "last": c.Post, "of": fr},
					Observed: c16Show(r)})
			}
		}

		// ---- family 1: cases from TLC
		parallel(len(cs), runtime.NumCPU(), func(i int) {
			c := &cs[i]
			var frames [][]byte
			for _, f := range c.Frames {
				frames = append(frames, toBytes(f))
			}
			wire := toBytes(c.Wire)
			clean := toBytes(c.Clean)
			// bind the spec's encoder to the real writer
			var real bytes.Buffer
			if c.Lead {
				dev := &c16Dev{}
				cw := client.NewCobsWrapper(dev, 64)
				for _, f := range frames {
					cw.Write(f)
				}
				real = dev.written
			} else {
				for _, f := range frames {
					real.Write(refCobsEncode(f))
				}
			}
			if !bytes.Equal(real.Bytes(), clean) {
				res.fail(Failure{Finding: "encoder", What: "real encoder output differs from Cobs!Wire",
					Case: map[string]any{"frames": c.Frames, "lead": c.Lead}, Expected: fmt.Sprintf("%x", clean), Observed: fmt.Sprintf("%x", real.Bytes())})
			}
			class := "segmentation"
			if c.Dmg.Kind != "none" {
				class = "damage-" + c.Dmg.Kind
			}
			n := len(wire)
			if n == 0 {
				return
			}
			lim := *maxExh
			if c.Dmg.Kind != "none" {
				lim = *maxExhDmg
			}
			if n <= lim {
				for m := uint64(0); m < 1<<(n-1); m++ {
					check(c, frames, wire, cutsFromMask(m, n), 64, class)
				}
				mu.Lock()
				segExh++
				mu.Unlock()
			} else {
				rng := rand.New(rand.NewSource(*seed*7919 + int64(i)))
				check(c, frames, wire, nil, 64, class)
				check(c, frames, wire, cutsFromMask(^uint64(0), n), 64, class)
				for k := 0; k < *sampled; k++ {
					check(c, frames, wire, cutsFromMask(rng.Uint64(), n), 64, class)
				}
			}
			mu.Lock()
			key := fmt.Sprintf("%x|%v", wire, c.Dmg)
			if !distinct[key] {
				distinct[key] = true
				if len(c.Frames) > 1 || c.Dmg.Kind != "none" {
					nontriv++
				}
			}
			mu.Unlock()
			if i%4001 == 0 {
				res.sample(map[string]any{"frames": c.Frames, "lead": c.Lead, "wire": c.Wire, "damage": c.Dmg,
					"must_deliver_first": c.Pre, "must_deliver_last": c.Post,
					"segmentations_replayed": fmt.Sprintf("all 2^%d", n-1)}, 8)
			}
		})
		res.Traces = len(cs)

		// ---- family 2: long frames (0xFF block code, length guard); oracle: delivered = written
		longCases := 0
		if *long != "off" {
			rng := rand.New(rand.NewSource(*seed))
			maxLen := 1024
			mk := func(n int, zeros bool) []byte {
				b := make([]byte, n)
				for i := range b {
					b[i] = byte(1 + rng.Intn(255))
					if zeros && rng.Intn(40) == 0 {
						b[i] = 0
					}
				}
				return b
			}
			lens := []int{253, 254, 255, 256, 300, 508, 509, 762, 1000}
			// the longest frames the reader's buffer takes: encoded length (with its closing delimiter) equal to the buffer size and one below
			// (with the usual leading delimiter the stream holds exactly a buffer's worth before the closing one)
			for n := 1000; n < maxLen; n++ {
				if e := len(refCobsEncode(bytes.Repeat([]byte{9}, n))); e == maxLen || e == maxLen-1 {
					lens = append(lens, n)
				}
			}
			type lc struct {
				frames [][]byte
				pre    int // frames that must come first
				post   int
				exact  bool
			}
			var lcs []lc
			for _, n := range lens {
				for _, z := range []bool{false, true} {
					lcs = append(lcs, lc{[][]byte{mk(3, z), mk(n, z), mk(5, z)}, 3, 0, true})
				}
			}
			// runs of exactly 254 non-zero bytes (one full 0xff block) before a zero, at the end, twice
			nz := func(n int) []byte { return bytes.Repeat([]byte{5}, n) }
			cat := func(parts ...[]byte) []byte { return bytes.Join(parts, nil) }
			for _, f := range [][]byte{cat(nz(254), []byte{0, 7}), nz(254), cat(nz(254), []byte{0}), cat(nz(253), []byte{0}, nz(254), []byte{0, 9}),
				cat(nz(508), []byte{0, 1}), cat([]byte{0}, nz(254), []byte{0}), cat(nz(254), []byte{0, 0}, nz(254))} {
				lcs = append(lcs, lc{[][]byte{mk(3, false), f, mk(5, true)}, 3, 0, true})
			}
			// over-long frames: the length guard may report errors; the next frame must survive
			for _, n := range []int{1100, 2500} {
				lcs = append(lcs, lc{[][]byte{mk(4, false), mk(n, false), mk(6, true)}, 1, 1, false})
			}
			var jobs []func()
			for li := range lcs {
				l := lcs[li]
				for _, lead := range []bool{true, false} {
					var wire []byte
					for _, f := range l.frames {
						if lead {
							wire = append(wire, 0)
						}
						wire = append(wire, refCobsEncode(f)...)
					}
					if lead {
						// the real writer must put the same bytes on the wire (standard COBS, as the
						// device's decoder expects them)
						dev := &c16Dev{}
						cw := client.NewCobsWrapper(dev, maxLen)
						for _, f := range l.frames {
							cw.Write(f)
						}
						if real := dev.written.Bytes(); !bytes.Equal(real, wire) {
							at := 0
							for at < len(real) && at < len(wire) && real[at] == wire[at] {
								at++
							}
							res.fail(Failure{Finding: "encoder-long-frame", What: fmt.Sprintf("the writer's output for frames of %d, %d, %d bytes differs from standard COBS at byte %d (%d bytes written, %d expected)",
								len(l.frames[0]), len(l.frames[1]), len(l.frames[2]), at, len(real), len(wire))})
							wire = real // the reader is judged on what the writer really sent
						}
					}
					c := &c16Case{Lead: lead, Pre: l.pre, Post: l.post, Dmg: c16Dmg{Kind: "none"}}
					if !l.exact {
						c.Dmg.Kind = "overlong"
					}
					n := len(wire)
					class := "long-frame"
					if !l.exact {
						class = "overlong-frame"
					}
					frames, w := l.frames, wire
					// all single cuts
					for i := 1; i < n; i++ {
						i := i
						jobs = append(jobs, func() { check(c, frames, w, []int{i}, maxLen, class) })
					}
					jobs = append(jobs, func() { check(c, frames, w, nil, maxLen, class) })
					// one-byte reads
					all := make([]int, 0, n)
					for i := 1; i < n; i++ {
						all = append(all, i)
					}
					jobs = append(jobs, func() { check(c, frames, w, all, maxLen, class) })
					// pairs of cuts: exhaustive in thorough, sampled in quick
					if *long == "thorough" && n < 700 {
						for i := 1; i < n; i++ {
							for j := i + 1; j < n; j++ {
								i, j := i, j
								jobs = append(jobs, func() { check(c, frames, w, []int{i, j}, maxLen, class) })
							}
						}
					} else {
						for k := 0; k < 3000; k++ {
							i := 1 + rng.Intn(n-1)
							j := 1 + rng.Intn(n-1)
							if i == j {
								continue
							}
							if i > j {
								i, j = j, i
							}
							jobs = append(jobs, func() { check(c, frames, w, []int{i, j}, maxLen, class) })
						}
					}
					// seeded larger cut sets with chunk sizes like a UART FIFO
					for k := 0; k < 200; k++ {
						var cuts []int
						p := 0
						step := []int{1, 8, 16, 32, 64, 255}[rng.Intn(6)]
						for {
							p += 1 + rng.Intn(step)
							if p >= n {
								break
							}
							cuts = append(cuts, p)
						}
						jobs = append(jobs, func() { check(c, frames, w, cuts, maxLen, class) })
					}
					longCases++
					nontriv++
				}
			}
			parallel(len(jobs), runtime.NumCPU(), func(i int) { jobs[i]() })
		}
		res.Evaluations = evals
		res.DistinctNontrivial = nontriv
		res.Extra["zero_length_reads_ignored"] = zeroReads
		res.Extra["wires_with_all_segmentations"] = segExh
		res.Extra["long_frame_streams"] = longCases
		_ = errors.New
		return res.write(*out)
	}
}
