package main

import (
	"encoding/binary"
	"flag"
	"fmt"
	"sync"
	"sync/atomic"

	"github.com/simpleiot/simpleiot/modbus"
)

// Concurrent writers on one modbus.Regs (ModbusConc.tla): every writer owns one coil of the same
// 16-bit register and toggles it with Write Single Coil requests through PDU.ProcessRequest - as the
// connections of a TCPServer do - and reads it back after every acknowledged write.  Nobody else
// writes that coil, so it must hold what its owner was last acknowledged.

func init() {
	commands["c18conc"] = func(args []string) error {
		fs := flag.NewFlagSet("c18conc", flag.ExitOnError)
		out := fs.String("out", "", "")
		writers := fs.Int("writers", 6, "")
		rounds := fs.Int("rounds", 20000, "")
		fs.Parse(args)
		res := &Result{Extra: map[string]any{}}
		regs := &modbus.Regs{}
		regs.AddReg(3, 1)
		var lost, acks atomic.Int64
		var first atomic.Value
		var wg sync.WaitGroup
		for w := 0; w < *writers; w++ {
			wg.Add(1)
			go func(w int) {
				defer wg.Done()
				coil := 3*16 + w
				val := false
				for r := 0; r < *rounds; r++ {
					val = !val
					d := make([]byte, 4)
					binary.BigEndian.PutUint16(d, uint16(coil))
					if val {
						binary.BigEndian.PutUint16(d[2:], 0xff00)
					}
					req := modbus.PDU{FunctionCode: modbus.FuncCodeWriteSingleCoil, Data: d}
					_, resp, err := req.ProcessRequest(regs)
					if err != nil || resp.FunctionCode != modbus.FuncCodeWriteSingleCoil {
						continue
					}
					acks.Add(1)
					got, err := regs.ReadCoil(coil)
					if err != nil || got != val {
						lost.Add(1)
						first.CompareAndSwap(nil, fmt.Sprintf("writer %d round %d: coil %d written %v and acknowledged, reads back %v", w, r, coil, val, got))
					}
				}
			}(w)
		}
		wg.Wait()
		if n := lost.Load(); n > 0 {
			res.fail(Failure{Finding: "concurrent-coil-write-lost",
				What: fmt.Sprintf("%d of %d acknowledged coil writes by concurrent writers on one register were overwritten by another writer; first: %v", n, acks.Load(), first.Load())})
		}
		res.Evaluations = int(acks.Load())
		res.Traces = *writers
		res.DistinctNontrivial = *writers
		res.Extra["concurrent_acknowledged_coil_writes"] = acks.Load()
		return res.write(*out)
	}
}
