package main

import (
	"bytes"
	"flag"
	"fmt"
	"math"
	"math/rand"
	"runtime"
	"strings"
	"sync"
	"sync/atomic"

	"github.com/simpleiot/simpleiot/client"
	"github.com/simpleiot/simpleiot/data"
)

// C17: serial packets.  Round trip of TLC-generated packet patterns; then the
// error classes the CRC is relied upon to detect are expanded exhaustively on
// real packets.  Wire!Hole predicts for which documented subjects the log
// exemption lets a damaged packet through.

func init() {
	commands["c17"] = func(args []string) error {
		fs := flag.NewFlagSet("c17", flag.ExitOnError)
		casesF := fs.String("cases", "", "")
		out := fs.String("out", "", "")
		seed := fs.Int64("seed", 1, "")
		burst := fs.String("bursts", "sampled", "sampled|exhaustive")
		burstSamples := fs.Int("burst-samples", 1000000, "")
		corruptPackets := fs.Int("corrupt-packets", 6, "packets per subject class that get the corruption classes")
		fs.Parse(args)
		cs, err := readJSONLines[wireCase](*casesF)
		if err != nil {
			return err
		}
		res := &Result{Extra: map[string]any{}}
		var mu sync.Mutex
		evals := 0
		nontriv := map[string]bool{}
		var pats []wireCase
		var subjects []wireCase
		for _, c := range cs {
			switch c.Kind {
			case "point":
				pats = append(pats, c)
			case "subject":
				subjects = append(subjects, c)
			}
		}
		rng := rand.New(rand.NewSource(*seed))

		// ---- round trip
		type job struct {
			seq   byte
			subj  string
			pats  []wireCase
			concK int
		}
		var jobs []job
		seqs := []byte{0, 1, 127, 255}
		for i, s := range subjects {
			subj := strings.Join(s.S, "")
			n := i % 4 // 0..3 points
			var ps []wireCase
			for k := 0; k < n; k++ {
				ps = append(ps, pats[rng.Intn(len(pats))])
			}
			jobs = append(jobs, job{seqs[i%4], subj, ps, i})
		}
		// every point pattern at least once, on the blank subject
		for i, p := range pats {
			jobs = append(jobs, job{seqs[i%4], []string{"", "ack", "phr", "p.a"}[i%4], []wireCase{p}, i})
		}
		parallel(len(jobs), runtime.NumCPU(), func(i int) {
			j := jobs[i]
			var pts data.Points
			var exp []data.Point
			for k, pc := range j.pats {
				p := wirePoint(pc.P, j.concK+k, true)
				pts = append(pts, p)
				e := p
				e.Value = float64(float32(p.Value))
				exp = append(exp, e)
			}
			pkt, err := client.SerialEncode(j.seq, j.subj, pts)
			mu.Lock()
			evals++
			nontriv[fmt.Sprintf("%d|%s|%v", j.seq, j.subj, j.pats)] = true
			mu.Unlock()
			if err != nil {
				res.fail(Failure{Finding: "encode-error", What: "SerialEncode: " + err.Error(), Case: map[string]any{"subject": j.subj}})
				return
			}
			seq, subj, payload, err := client.SerialDecode(pkt)
			if err != nil || seq != j.seq || subj != j.subj {
				res.fail(Failure{Finding: "roundtrip-header", What: fmt.Sprintf("SerialDecode: seq %d subject %q err %v", seq, subj, err),
					Case: map[string]any{"seq": j.seq, "subject": j.subj}})
				return
			}
			got, err := data.PbDecodeSerialPoints(payload)
			if err != nil || len(got) != len(exp) {
				res.fail(Failure{Finding: "roundtrip-points", What: fmt.Sprintf("PbDecodeSerialPoints: %d points, err %v", len(got), err),
					Case: map[string]any{"seq": j.seq, "subject": j.subj, "points": len(exp)}})
				return
			}
			for k := range exp {
				if d := pointDiff(exp[k], got[k]); len(d) > 0 {
					res.fail(Failure{Finding: "serial-point-" + strings.Join(d, "+"), What: "serial round trip changed fields: " + strings.Join(d, ","),
						Case: map[string]any{"pattern": j.pats[k].P}, Expected: showPoint(exp[k]), Observed: showPoint(got[k])})
				}
			}
			if i%997 == 0 {
				res.sample(map[string]any{"seq": j.seq, "subject": j.subj, "points": len(pts), "packet_bytes": len(pkt)}, 5)
			}
		})
		res.Traces = len(jobs)

		// subject length guard: 16 bytes fit, 17 do not
		if _, err := client.SerialEncode(1, strings.Repeat("s", 16), nil); err != nil {
			res.fail(Failure{Finding: "subject-16", What: "16-byte subject refused: " + err.Error()})
		}
		if _, err := client.SerialEncode(1, strings.Repeat("s", 17), nil); err == nil {
			res.fail(Failure{Finding: "subject-17", What: "17-byte subject accepted"})
		}

		// ---- corruption classes on real packets
		holeSeen := map[string]bool{}
		var corrupted int64
		type pk struct {
			subj string
			hole bool
			pkt  []byte
		}
		var pks []pk
		byShape := map[string][]wireCase{}
		for _, s := range subjects {
			shape := fmt.Sprintf("%d-%d", len(s.S), strings.Count(strings.Join(s.S, ""), "."))
			if s.Hole {
				shape = "hole"
			}
			byShape[shape] = append(byShape[shape], s)
		}
		for shape, ss := range byShape {
			n := *corruptPackets
			if shape == "hole" || n > len(ss) {
				n = len(ss)
			}
			for k := 0; k < n; k++ {
				s := ss[(k*7919)%len(ss)]
				if shape == "hole" {
					s = ss[k]
				}
				subj := strings.Join(s.S, "")
				pts := data.Points{wirePoint(pats[rng.Intn(len(pats))].P, k, true)}
				if k%2 == 0 {
					pts = append(pts, data.Point{Type: "temp", Value: 21.5})
				}
				if len(pts[0].Text) > 30 {
					pts[0].Text = pts[0].Text[:30]
				}
				pts[0].Type, pts[0].Key, pts[0].Origin = "t", "k", ""
				pkt, err := client.SerialEncode(byte(k), subj, pts)
				if err != nil {
					continue
				}
				pks = append(pks, pk{subj, s.Hole, pkt})
			}
		}
		checkOne := func(p *pk, mod []byte, desc func() any) {
			atomic.AddInt64(&corrupted, 1)
			seq, subj, payload, err := client.SerialDecode(mod)
			if err != nil {
				return // rejected: good
			}
			// delivered: must be the original content
			oseq, osubj, opayload, _ := client.SerialDecode(p.pkt)
			if seq == oseq && subj == osubj && bytes.Equal(payload, opayload) {
				return
			}
			cls := "undetected-corruption"
			if subj == "log" {
				cls = "log-exemption-hole" // input class: the damage turns the subject field into "log"
				mu.Lock()
				holeSeen[p.subj] = true
				mu.Unlock()
			}
			res.fail(Failure{Finding: cls, What: fmt.Sprintf("damaged packet on subject %q delivered as subject %q", p.subj, subj),
				Case:     map[string]any{"subject": p.subj, "packet": fmt.Sprintf("%x", p.pkt), "damage": desc(), "spec_hole": p.hole},
				Observed: map[string]any{"seq": seq, "subject": subj, "payload": fmt.Sprintf("%x", payload)}})
		}
		flip := func(b []byte, bit int) { b[bit/8] ^= 0x80 >> uint(bit%8) }
		parallel(len(pks), runtime.NumCPU(), func(i int) {
			p := &pks[i]
			nb := len(p.pkt) * 8
			buf := make([]byte, len(p.pkt))
			// all single-bit errors
			for a := 0; a < nb; a++ {
				copy(buf, p.pkt)
				flip(buf, a)
				checkOne(p, buf, func() any { return map[string]any{"bits": []int{a}} })
			}
			// all double-bit errors
			for a := 0; a < nb; a++ {
				for b := a + 1; b < nb; b++ {
					copy(buf, p.pkt)
					flip(buf, a)
					flip(buf, b)
					checkOne(p, buf, func() any { return map[string]any{"bits": []int{a, b}} })
				}
			}
		})
		// bursts: start x length 2..16 x every interior pattern (both end bits flipped)
		type bj struct {
			p     *pk
			start int
		}
		var bjs []bj
		for i := range pks {
			for s := 0; s < len(pks[i].pkt)*8; s++ {
				bjs = append(bjs, bj{&pks[i], s})
			}
		}
		doBurst := func(p *pk, buf []byte, start, L int, interior uint32) {
			nb := len(p.pkt) * 8
			if start+L > nb {
				return
			}
			copy(buf, p.pkt)
			flip(buf, start)
			flip(buf, start+L-1)
			for k := 0; k < L-2; k++ {
				if interior&(1<<uint(k)) != 0 {
					flip(buf, start+1+k)
				}
			}
			checkOne(p, buf, func() any { return map[string]any{"burst_start": start, "len": L, "interior": interior} })
		}
		if *burst == "exhaustive" {
			parallel(len(bjs), runtime.NumCPU(), func(i int) {
				buf := make([]byte, len(bjs[i].p.pkt))
				for L := 3; L <= 16; L++ {
					for in := uint32(0); in < 1<<uint(L-2); in++ {
						doBurst(bjs[i].p, buf, bjs[i].start, L, in)
					}
				}
			})
		} else {
			// every start x every length with the all-ones, all-zeros and alternating interiors, then seeded samples;
			// packets whose subject the spec puts in Hole get the exhaustive treatment over the subject field
			parallel(len(bjs), runtime.NumCPU(), func(i int) {
				buf := make([]byte, len(bjs[i].p.pkt))
				for L := 3; L <= 16; L++ {
					full := uint32(1)<<uint(L-2) - 1
					for _, in := range []uint32{0, full, 0x5555 & full, 0x2aaa & full} {
						doBurst(bjs[i].p, buf, bjs[i].start, L, in)
					}
					// the checksum trailer and the bytes before it: every pattern (a decoder that gives a
					// special meaning to some trailer value is only caught by the pattern that produces it)
					tail := bjs[i].start >= len(bjs[i].p.pkt)*8-32
					if tail || bjs[i].p.hole && bjs[i].start < 17*8 {
						for in := uint32(0); in <= full; in++ {
							doBurst(bjs[i].p, buf, bjs[i].start, L, in)
						}
					}
				}
			})
			per := *burstSamples / runtime.NumCPU()
			parallel(runtime.NumCPU(), runtime.NumCPU(), func(w int) {
				r := rand.New(rand.NewSource(*seed*1000 + int64(w)))
				buf := make([]byte, 4096)
				for k := 0; k < per; k++ {
					p := &pks[r.Intn(len(pks))]
					L := 3 + r.Intn(14)
					doBurst(p, buf[:len(p.pkt)], r.Intn(len(p.pkt)*8), L, r.Uint32()&(uint32(1)<<uint(L-2)-1))
				}
			})
		}
		// consistency of the model's Hole with what the real code does
		for i := range pks {
			p := &pks[i]
			if p.hole && !holeSeen[p.subj] {
				res.Extra["hole_predicted_not_observed"] = p.subj
			}
			if !p.hole && holeSeen[p.subj] {
				res.fail(Failure{Finding: "hole-not-predicted", What: "log exemption reached from a subject Wire!Hole excludes", Case: p.subj})
			}
		}
		_ = math.Pi
		res.Extra["corrupted_packets_decoded"] = corrupted
		res.Extra["packets_corrupted"] = len(pks)
		res.Evaluations = evals + int(corrupted)
		res.DistinctNontrivial = len(nontriv)
		return res.write(*out)
	}
}
