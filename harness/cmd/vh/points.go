package main

import (
	"encoding/json"
	"flag"
	"fmt"
	"io"
	"log"
	"math"
	"reflect"
	"runtime"
	"sort"
	"strings"
	"sync"

	"github.com/simpleiot/simpleiot/data"
)

// C10 / C11: cases printed by TLC from Points.tla are concretised over a Go
// struct that has fields of every supported kind and element type, and pushed
// through the real data.Encode / Decode / DiffPoints / MergePoints.

type vhFlat struct {
	X int    `point:"x"`
	Y string `point:"y"`
}

type vhFlatF struct {
	X float64 `point:"x"`
	Y uint16  `point:"y"`
}

// a flat struct with a pointer field: the only shape in which single fields carry tombstones
type vhFlatP struct {
	X int  `point:"x"`
	Y *int `point:"y"`
}

type vhFlatPF struct {
	X string   `point:"x"`
	Y *float64 `point:"y"`
}

// vk tag: the abstract kind of Points.tla the field is an instance of
type vhCfg struct {
	ID     string `node:"id"`
	Parent string `node:"parent"`

	SBool bool    `point:"sBool" vk:"scalar"`
	SInt  int     `point:"sInt" vk:"scalar"`
	SI8   int8    `point:"sI8" vk:"scalar"`
	SI16  int16   `point:"sI16" vk:"scalar"`
	SI32  int32   `point:"sI32" vk:"scalar"`
	SI64  int64   `point:"sI64" vk:"scalar"`
	SU    uint    `point:"sU" vk:"scalar"`
	SU8   uint8   `point:"sU8" vk:"scalar"`
	SU16  uint16  `point:"sU16" vk:"scalar"`
	SU32  uint32  `point:"sU32" vk:"scalar"`
	SU64  uint64  `point:"sU64" vk:"scalar"`
	SF32  float32 `point:"sF32" vk:"scalar"`
	SF64  float64 `point:"sF64" vk:"scalar"`
	SStr  string  `point:"sStr" vk:"scalar"`
	ERole string  `edgepoint:"role" vk:"scalar"`
	ENum  int     `edgepoint:"eNum" vk:"scalar"`

	PInt  *int     `point:"pInt" vk:"ptr"`
	PF64  *float64 `point:"pF64" vk:"ptr"`
	PStr  *string  `point:"pStr" vk:"ptr"`
	PBool *bool    `point:"pBool" vk:"ptr"`
	PU8   *uint8   `point:"pU8" vk:"ptr"`

	LInt  []int     `point:"lInt" vk:"slice"`
	LF64  []float64 `point:"lF64" vk:"slice"`
	LStr  []string  `point:"lStr" vk:"slice"`
	LU8   []uint8   `point:"lU8" vk:"slice"`
	LBool []bool    `point:"lBool" vk:"slice"`
	LI64  []int64   `point:"lI64" vk:"slice"`
	ELst  []string  `edgepoint:"eLst" vk:"slice"`

	LPInt []*int     `point:"lPInt" vk:"pslice"`
	LPF64 []*float64 `point:"lPF64" vk:"pslice"`
	LPStr []*string  `point:"lPStr" vk:"pslice"`

	AInt [2]int     `point:"aInt" vk:"array"`
	AStr [2]string  `point:"aStr" vk:"array"`
	AF32 [2]float32 `point:"aF32" vk:"array"`

	MInt  map[string]int     `point:"mInt" vk:"map"`
	MStr  map[string]string  `point:"mStr" vk:"map"`
	MF64  map[string]float64 `point:"mF64" vk:"map"`
	MBool map[string]bool    `point:"mBool" vk:"map"`

	TS  vhFlat  `point:"tS" vk:"struct"`
	TSF vhFlatF `point:"tSF" vk:"struct"`

	PTS  *vhFlat  `point:"pTS" vk:"pstruct"`
	PTSF *vhFlatF `point:"pTSF" vk:"pstruct"`

	PTP  *vhFlatP  `point:"pTP" vk:"pstructp"`
	PTPF *vhFlatPF `point:"pTPF" vk:"pstructp"`
}

// scalar concretisation: atom (0 = zero, 1, 2) -> value of Go type t, varied by conc
func vhScalar(t reflect.Type, atom, conc int) reflect.Value {
	v := reflect.New(t).Elem()
	if atom == 0 {
		return v
	}
	if conc < 0 {
		// plain concretisation: numeric atom n -> n, string -> "a"/"bb", bool -> true
		switch t.Kind() {
		case reflect.Bool:
			v.SetBool(true)
		case reflect.Int, reflect.Int8, reflect.Int16, reflect.Int32, reflect.Int64:
			v.SetInt(int64(atom))
		case reflect.Uint, reflect.Uint8, reflect.Uint16, reflect.Uint32, reflect.Uint64:
			v.SetUint(uint64(atom))
		case reflect.Float32, reflect.Float64:
			v.SetFloat(float64(atom))
		case reflect.String:
			v.SetString([]string{"", "a", "bb"}[atom])
		}
		return v
	}
	pick := func(a, b []float64) float64 {
		if atom == 1 {
			return a[conc%len(a)]
		}
		return b[conc%len(b)]
	}
	switch t.Kind() {
	case reflect.Bool:
		v.SetBool(true)
	case reflect.Int, reflect.Int64:
		v.SetInt(int64(pick([]float64{1, -1, 1 << 40}, []float64{1<<53 - 1, -(1<<53 - 1), 2})))
	case reflect.Int8:
		v.SetInt(int64(pick([]float64{1, -1}, []float64{127, -128})))
	case reflect.Int16:
		v.SetInt(int64(pick([]float64{1, -300}, []float64{32767, -32768})))
	case reflect.Int32:
		v.SetInt(int64(pick([]float64{1, -70000}, []float64{math.MaxInt32, math.MinInt32})))
	case reflect.Uint, reflect.Uint64:
		v.SetUint(uint64(pick([]float64{1, 1 << 40}, []float64{1<<53 - 1, 2})))
	case reflect.Uint8:
		v.SetUint(uint64(pick([]float64{1, 7}, []float64{255, 128})))
	case reflect.Uint16:
		v.SetUint(uint64(pick([]float64{1, 300}, []float64{65535, 32768})))
	case reflect.Uint32:
		v.SetUint(uint64(pick([]float64{1, 70000}, []float64{math.MaxUint32, 1 << 31})))
	case reflect.Float32:
		v.SetFloat(float64(float32(pick([]float64{0.1, -1.5, math.SmallestNonzeroFloat32}, []float64{math.MaxFloat32, 16777217, -0.3}))))
	case reflect.Float64:
		v.SetFloat(pick([]float64{0.1, -1.5, math.SmallestNonzeroFloat64, math.Inf(1)}, []float64{math.MaxFloat64, 1<<53 + 1, -0.3, math.Inf(-1)}))
	case reflect.String:
		if atom == 1 {
			v.SetString([]string{"a", "Ünï✓", " lead", "null"}[conc%4])
		} else {
			v.SetString([]string{"bb", "multi\nline", "0", "日本"}[conc%4])
		}
	default:
		panic("scalar kind " + t.Kind().String())
	}
	return v
}

func concPlus(conc, i int) int {
	if conc < 0 {
		return conc
	}
	return conc + i
}

func jInt(r json.RawMessage) int {
	var n int
	if err := json.Unmarshal(r, &n); err != nil {
		panic(fmt.Sprintf("not an int: %s", r))
	}
	return n
}

func jList(r json.RawMessage) []json.RawMessage {
	var l []json.RawMessage
	if err := json.Unmarshal(r, &l); err != nil {
		panic(fmt.Sprintf("not a list: %s", r))
	}
	return l
}

func jObj(r json.RawMessage) map[string]json.RawMessage {
	s := strings.TrimSpace(string(r))
	if s == "[]" { // the empty function prints as an empty sequence
		return map[string]json.RawMessage{}
	}
	var m map[string]json.RawMessage
	if err := json.Unmarshal(r, &m); err != nil {
		panic(fmt.Sprintf("not an object: %s", r))
	}
	return m
}

func vhStructVal(t reflect.Type, obj map[string]json.RawMessage, conc int) reflect.Value {
	v := reflect.New(t).Elem()
	for i := 0; i < t.NumField(); i++ {
		key := t.Field(i).Tag.Get("point")
		if r, ok := obj[key]; ok {
			if ft := t.Field(i).Type; ft.Kind() == reflect.Pointer {
				// abstract value of a pointer field: [] = nil, [atom] = pointer to the atom's value
				if l := jList(r); len(l) > 0 {
					p := reflect.New(ft.Elem())
					p.Elem().Set(vhScalar(ft.Elem(), jInt(l[0]), conc))
					v.Field(i).Set(p)
				}
				continue
			}
			v.Field(i).Set(vhScalar(t.Field(i).Type, jInt(r), conc))
		}
	}
	return v
}

// vhValue builds the Go value of field type t for an abstract value.
func vhValue(kind string, t reflect.Type, abs json.RawMessage, conc int) reflect.Value {
	v := reflect.New(t).Elem()
	switch kind {
	case "scalar":
		return vhScalar(t, jInt(abs), conc)
	case "ptr":
		l := jList(abs)
		if len(l) == 0 {
			return v
		}
		p := reflect.New(t.Elem())
		p.Elem().Set(vhScalar(t.Elem(), jInt(l[0]), conc))
		return p
	case "slice":
		l := jList(abs)
		s := reflect.MakeSlice(t, len(l), len(l))
		for i, e := range l {
			s.Index(i).Set(vhScalar(t.Elem(), jInt(e), concPlus(conc, i)))
		}
		return s
	case "pslice":
		// elements: -9 = nil, otherwise a pointer to the atom's value
		l := jList(abs)
		s := reflect.MakeSlice(t, len(l), len(l))
		for i, e := range l {
			if a := jInt(e); a != -9 {
				p := reflect.New(t.Elem().Elem())
				p.Elem().Set(vhScalar(t.Elem().Elem(), a, concPlus(conc, i)))
				s.Index(i).Set(p)
			}
		}
		return s
	case "array":
		for i, e := range jList(abs) {
			v.Index(i).Set(vhScalar(t.Elem(), jInt(e), concPlus(conc, i)))
		}
		return v
	case "map":
		m := reflect.MakeMap(t)
		for k, e := range jObj(abs) {
			m.SetMapIndex(reflect.ValueOf(k), vhScalar(t.Elem(), jInt(e), conc))
		}
		return m
	case "struct":
		return vhStructVal(t, jObj(abs), conc)
	case "pstruct", "pstructp":
		l := jList(abs)
		if len(l) == 0 {
			return v
		}
		p := reflect.New(t.Elem())
		p.Elem().Set(vhStructVal(t.Elem(), jObj(l[0]), conc))
		return p
	}
	panic("kind " + kind)
}

// vhEqual: deep equality that identifies nil and empty containers and compares floats by bits.
func vhEqual(a, b reflect.Value) bool {
	switch a.Kind() {
	case reflect.Pointer:
		if a.IsNil() || b.IsNil() {
			return a.IsNil() == b.IsNil()
		}
		return vhEqual(a.Elem(), b.Elem())
	case reflect.Slice, reflect.Array:
		if a.Len() != b.Len() {
			return false
		}
		for i := 0; i < a.Len(); i++ {
			if !vhEqual(a.Index(i), b.Index(i)) {
				return false
			}
		}
		return true
	case reflect.Map:
		if a.Len() != b.Len() {
			return false
		}
		it := a.MapRange()
		for it.Next() {
			bv := b.MapIndex(it.Key())
			if !bv.IsValid() || !vhEqual(it.Value(), bv) {
				return false
			}
		}
		return true
	case reflect.Struct:
		for i := 0; i < a.NumField(); i++ {
			if !vhEqual(a.Field(i), b.Field(i)) {
				return false
			}
		}
		return true
	case reflect.Float32, reflect.Float64:
		return math.Float64bits(a.Float()) == math.Float64bits(b.Float())
	default:
		return a.Interface() == b.Interface()
	}
}

func vhShow(v reflect.Value) string {
	switch v.Kind() {
	case reflect.Pointer:
		if v.IsNil() {
			return "nil"
		}
		return "&" + vhShow(v.Elem())
	case reflect.Struct:
		var parts []string
		for i := 0; i < v.NumField(); i++ {
			parts = append(parts, v.Type().Field(i).Name+":"+vhShow(v.Field(i)))
		}
		return "{" + strings.Join(parts, " ") + "}"
	case reflect.Map:
		var parts []string
		it := v.MapRange()
		for it.Next() {
			parts = append(parts, fmt.Sprintf("%q:%s", it.Key().String(), vhShow(it.Value())))
		}
		sort.Strings(parts)
		return "map[" + strings.Join(parts, " ") + "]"
	case reflect.Slice, reflect.Array:
		var parts []string
		for i := 0; i < v.Len(); i++ {
			parts = append(parts, vhShow(v.Index(i)))
		}
		return "[" + strings.Join(parts, " ") + "]"
	case reflect.Float32, reflect.Float64:
		return fmt.Sprintf("%v(%016x)", v.Float(), math.Float64bits(v.Float()))
	}
	return fmt.Sprintf("%#v", v.Interface())
}

type ptCase struct {
	T     string          `json:"t"`
	Kind  string          `json:"kind"`
	A     json.RawMessage `json:"a"`
	B     json.RawMessage `json:"b"`
	Prior json.RawMessage `json:"prior"`
	Pts   []struct {
		Key  string `json:"key"`
		Val  int    `json:"val"`
		Tomb int    `json:"tomb"`
	} `json:"pts"`
	Out string          `json:"out"`
	V   json.RawMessage `json:"v"`
}

func unwrap1(r json.RawMessage) json.RawMessage { return jList(r)[0] }

type vhField struct {
	idx  int
	name string
	tag  string // point type
	edge bool
	kind string
	typ  reflect.Type
}

func vhFields() []vhField {
	t := reflect.TypeOf(vhCfg{})
	var fs []vhField
	for i := 0; i < t.NumField(); i++ {
		f := t.Field(i)
		k := f.Tag.Get("vk")
		if k == "" {
			continue
		}
		tag, edge := f.Tag.Get("point"), false
		if tag == "" {
			tag, edge = f.Tag.Get("edgepoint"), true
		}
		fs = append(fs, vhField{i, f.Name, tag, edge, k, f.Type})
	}
	return fs
}

// abstract view of real points for the diagnostic comparison with the spec's prediction
func vhAbsPoints(ps data.Points, typ string) []string {
	var out []string
	for _, p := range ps {
		if p.Type != typ {
			continue
		}
		k := p.Key
		out = append(out, fmt.Sprintf("%s|%d", k, p.Tombstone))
	}
	sort.Strings(out)
	return out
}

func init() {
	commands["c10"] = func(args []string) error {
		fs := flag.NewFlagSet("c10", flag.ExitOnError)
		casesF := fs.String("cases", "", "")
		out := fs.String("out", "", "")
		seed := fs.Int("seed", 1, "")
		concs := fs.Int("conc", 1, "")
		fs.Parse(args)
		log.SetOutput(io.Discard)
		cs, err := readJSONLines[ptCase](*casesF)
		if err != nil {
			return err
		}
		fields := vhFields()
		res := &Result{Extra: map[string]any{}}
		var mu sync.Mutex
		evals, shapeDis := 0, 0
		nontriv := map[string]bool{}
		parallel(len(cs), runtime.NumCPU(), func(i int) {
			c := cs[i]
			if c.T != "rt" && c.T != "dm" {
				return
			}
			for _, f := range fields {
				if f.kind != c.Kind {
					continue
				}
				for k := 0; k < *concs; k++ {
					conc := *seed*17 + k*5 + i
					var what string
					var exp, got string
					func() {
						defer func() {
							if r := recover(); r != nil {
								what = fmt.Sprintf("panic: %v", r)
							}
						}()
						A := vhCfg{ID: "n1", Parent: "p1"}
						av := vhValue(c.Kind, f.typ, unwrap1(c.A), conc)
						reflect.ValueOf(&A).Elem().Field(f.idx).Set(av)
						ne, err := data.Encode(A)
						if err != nil {
							what = "Encode: " + err.Error()
							return
						}
						var D vhCfg
						if err := data.Decode(data.NodeEdgeChildren{NodeEdge: ne}, &D); err != nil {
							what = "Decode(Encode(a)): " + err.Error()
							return
						}
						dv := reflect.ValueOf(&D).Elem().Field(f.idx)
						if c.T == "rt" {
							// diagnostic: shape of the real points vs the spec's
							var pred []string
							for _, p := range c.Pts {
								pred = append(pred, fmt.Sprintf("%s|%d", p.Key, p.Tomb))
							}
							sort.Strings(pred)
							real := vhAbsPoints(ne.Points, f.tag)
							if f.edge {
								real = vhAbsPoints(ne.EdgePoints, f.tag)
							}
							if strings.Join(pred, ",") != strings.Join(real, ",") {
								mu.Lock()
								shapeDis++
								mu.Unlock()
							}
							if !vhEqual(av, dv) || D.ID != "n1" || D.Parent != "p1" {
								what, exp, got = "Decode(Encode(v)) differs from v", vhShow(av), vhShow(dv)
							}
							return
						}
						B := vhCfg{ID: "n1", Parent: "p1"}
						bv := vhValue(c.Kind, f.typ, unwrap1(c.B), conc+1)
						reflect.ValueOf(&B).Elem().Field(f.idx).Set(bv)
						if f.edge {
							// DiffPoints only covers point fields; edge fields are merged through MergeEdgePoints
							neB, err := data.Encode(B)
							if err != nil {
								what = "Encode(b): " + err.Error()
								return
							}
							if err := data.MergeEdgePoints("n1", "p1", neB.EdgePoints, &D); err != nil {
								what = "MergeEdgePoints: " + err.Error()
								return
							}
							// edge merge of the full encoding is an overwrite only for kinds without deletion
							if f.kind == "scalar" && !vhEqual(bv, dv) {
								what, exp, got = "MergeEdgePoints(Encode(b)) differs from b", vhShow(bv), vhShow(dv)
							}
							return
						}
						pts, err := data.DiffPoints(A, B)
						if err != nil {
							what = "DiffPoints: " + err.Error()
							return
						}
						if err := data.MergePoints("n1", pts, &D); err != nil {
							what = "MergePoints: " + err.Error()
							return
						}
						if !vhEqual(bv, dv) {
							what, exp, got = "Merge(Decode(Encode(a)), Diff(a,b)) differs from b", vhShow(bv), vhShow(dv)
						}
					}()
					mu.Lock()
					evals++
					nontriv[fmt.Sprintf("%s|%s|%s|%s|%s", c.T, c.Kind, f.name, c.A, c.B)] = true
					mu.Unlock()
					if what != "" {
						res.fail(Failure{Finding: c.T + "-" + c.Kind, What: what,
							Case:     map[string]any{"law": c.T, "kind": c.Kind, "field": f.name, "type": f.typ.String(), "a": c.A, "b": c.B, "conc": conc},
							Expected: exp, Observed: got})
					}
				}
			}
			if i%3001 == 0 {
				res.sample(map[string]any{"law": c.T, "kind": c.Kind, "a": c.A, "b": c.B, "predicted_points": c.Pts}, 8)
			}
		})
		// over-limit: documented limits are errors, not silent truncation
		{
			A := vhCfg{ID: "n1"}
			A.LInt = make([]int, 1001)
			if _, err := data.Encode(A); err == nil {
				res.fail(Failure{Finding: "limit", What: "1001-element slice encoded without error"})
			}
			A = vhCfg{ID: "n1", SI64: 1 << 53}
			if _, err := data.Encode(A); err == nil {
				res.fail(Failure{Finding: "limit", What: "2^53 encoded without error"})
			}
			A = vhCfg{ID: "n1"}
			A.LInt = make([]int, 1000)
			A.LInt[999] = 7
			ne, err := data.Encode(A)
			var D vhCfg
			if err == nil {
				err = data.Decode(data.NodeEdgeChildren{NodeEdge: ne}, &D)
			}
			if err != nil || len(D.LInt) != 1000 || D.LInt[999] != 7 {
				res.fail(Failure{Finding: "limit", What: fmt.Sprintf("1000-element slice does not round trip: %v", err)})
			}
			evals += 3
		}
		res.Evaluations = evals
		res.Traces = len(cs)
		res.DistinctNontrivial = len(nontriv)
		res.Extra["point_shape_disagreements_with_spec"] = shapeDis
		return res.write(*out)
	}

	commands["c11"] = func(args []string) error {
		fs := flag.NewFlagSet("c11", flag.ExitOnError)
		casesF := fs.String("cases", "", "")
		out := fs.String("out", "", "")
		seed := fs.Int("seed", 1, "")
		fs.Parse(args)
		log.SetOutput(io.Discard)
		cs, err := readJSONLines[ptCase](*casesF)
		if err != nil {
			return err
		}
		fields := vhFields()
		res := &Result{Extra: map[string]any{}}
		var mu sync.Mutex
		evals, agree, disagree, predPanic, errs := 0, 0, 0, 0, 0
		nontriv := map[string]bool{}
		extremes := []float64{math.NaN(), math.Inf(1), math.Inf(-1), 1e300, -1, 1 << 53, 1.5, -1e300, 256, 65536, 4294967296}
		parallel(len(cs), runtime.NumCPU(), func(i int) {
			c := cs[i]
			if c.T != "dec" {
				return
			}
			for _, f := range fields {
				if f.kind != c.Kind {
					continue
				}
				// pass 0: atoms as small exact values (comparable with the spec's prediction)
				// pass 1..: seeded extreme values (verdict only: no panic)
				for pass := 0; pass < 3; pass++ {
					mk := func(typ string) data.Points {
						var ps data.Points
						for j, p := range c.Pts {
							pt := data.Point{Type: typ, Key: p.Key, Tombstone: p.Tomb}
							if pass == 0 {
								pt.Value = float64(p.Val)
								pt.Text = []string{"", "a", "bb"}[p.Val]
							} else {
								pt.Value = extremes[(*seed+i+j+pass*3)%len(extremes)]
								pt.Text = "t"
							}
							switch p.Tomb {
							case 3:
								if pass == 2 {
									pt.Tombstone = math.MaxInt32
								}
							case -1:
								if pass == 2 {
									pt.Tombstone = math.MinInt32 + 1
								}
							}
							ps = append(ps, pt)
						}
						return ps
					}
					D := vhCfg{ID: "n1", Parent: "p1"}
					// prior atoms as exact small ints/strings so the predicted value is comparable
					prior := vhValue(c.Kind, f.typ, unwrap1(c.Prior), -1)
					reflect.ValueOf(&D).Elem().Field(f.idx).Set(prior)
					before := vhShow(reflect.ValueOf(D))
					var pan any
					var derr error
					func() {
						defer func() { pan = recover() }()
						pts := mk(f.tag)
						if f.edge {
							derr = data.MergeEdgePoints("n1", "p1", pts, &D)
						} else if pass == 1 {
							derr = data.Decode(data.NodeEdgeChildren{NodeEdge: data.NodeEdge{ID: "n1", Parent: "p1", Points: pts}}, &D)
						} else {
							derr = data.MergePoints("n1", pts, &D)
						}
					}()
					mu.Lock()
					evals++
					nontriv[fmt.Sprintf("%s|%s|%v|%s", c.Kind, f.name, c.Pts, c.Prior)] = true
					if derr != nil {
						errs++
					}
					mu.Unlock()
					if pan != nil {
						cls := "panic-" + c.Kind
						for _, p := range c.Pts {
							if p.Tomb < 0 {
								cls = "panic-negative-tombstone"
							}
						}
						res.fail(Failure{Finding: cls, What: fmt.Sprintf("decoding panicked: %v", pan),
							Case: map[string]any{"kind": c.Kind, "field": f.name, "type": f.typ.String(), "prior": c.Prior, "points": c.Pts, "pass": pass, "spec_predicts": c.Out}})
						continue
					}
					// undeclared types are ignored and change nothing
					D2 := vhCfg{ID: "n1", Parent: "p1"}
					reflect.ValueOf(&D2).Elem().Field(f.idx).Set(vhValue(c.Kind, f.typ, unwrap1(c.Prior), -1))
					func() {
						defer func() { pan = recover() }()
						data.MergePoints("n1", mk("notDeclaredAnywhere"), &D2)
					}()
					if pan != nil || vhShow(reflect.ValueOf(D2)) != before {
						res.fail(Failure{Finding: "undeclared-type", What: fmt.Sprintf("points of an undeclared type changed the target or panicked (%v)", pan),
							Case: map[string]any{"kind": c.Kind, "field": f.name, "points": c.Pts}})
					}
					if pass == 0 && f.typ.Kind() != reflect.Bool && !(f.typ.Kind() == reflect.Pointer && f.typ.Elem().Kind() == reflect.Bool) {
						// diagnostic only: outcome class and value vs the spec's transcription
						mu.Lock()
						switch {
						case c.Out == "panic":
							predPanic++
						case c.Out == "err" && derr != nil:
							agree++
						case c.Out == "ok" && derr == nil:
							want := vhValue(c.Kind, f.typ, unwrap1(c.V), -1)
							if vhEqual(want, reflect.ValueOf(&D).Elem().Field(f.idx)) {
								agree++
							} else {
								disagree++
								if len(res.Samples) < 12 {
									res.Samples = append(res.Samples, map[string]any{"diagnostic": "value differs from spec", "kind": c.Kind, "field": f.name,
										"prior": c.Prior, "points": c.Pts, "spec": c.V, "real": vhShow(reflect.ValueOf(&D).Elem().Field(f.idx))})
								}
							}
						default:
							disagree++
							if len(res.Samples) < 12 {
								res.Samples = append(res.Samples, map[string]any{"diagnostic": "outcome class differs from spec", "kind": c.Kind, "field": f.name,
									"prior": c.Prior, "points": c.Pts, "spec": c.Out, "real_err": fmt.Sprint(derr)})
							}
						}
						mu.Unlock()
					}
				}
			}
			if i%2503 == 0 {
				res.sample(map[string]any{"kind": c.Kind, "prior": c.Prior, "points": c.Pts, "spec_outcome": c.Out, "spec_value": c.V}, 20)
			}
		})
		res.Evaluations = evals
		res.Traces = len(cs)
		res.DistinctNontrivial = len(nontriv)
		res.Extra["diagnostic_agree_with_spec"] = agree
		res.Extra["diagnostic_disagree_with_spec"] = disagree
		res.Extra["spec_predicts_panic_as_coded"] = predPanic
		res.Extra["decodes_returning_error"] = errs
		return res.write(*out)
	}
}
