package main

import (
	"flag"
	"fmt"
	"sort"
	"sync"
	"time"

	"github.com/simpleiot/simpleiot/data"
)

// Point-set operations (PointOps.tla, MC_PointOps.tla): every case TLC printed is run through the
// real data.Points.Add / Merge / Collapse and compared with the outcome the specification predicts.
// Collapse is what the store's write path relies on (C01); disagreements there are findings of C01
// ("C01:collapse"), disagreements on Add and Merge are counted and shown ("pointops:add" / ":merge").

type poPt struct {
	Type string  `json:"type"`
	Key  string  `json:"key"`
	Ts   int     `json:"ts"`
	Val  float64 `json:"val"`
	Text string  `json:"text"`
	Tomb int     `json:"tomb"`
}

type poCase struct {
	T   string `json:"t"`
	Ps  []poPt `json:"ps"`
	In  []poPt `json:"in"`
	Mt  int    `json:"mt"`
	Out []poPt `json:"out"`
	Ret []poPt `json:"ret"`
}

var poBase = time.Date(2024, 3, 1, 12, 0, 0, 0, time.UTC)

func poReal(ps []poPt) data.Points {
	ret := data.Points{}
	for _, p := range ps {
		ret = append(ret, data.Point{Type: p.Type, Key: p.Key, Time: poBase.Add(time.Duration(p.Ts) * time.Hour),
			Value: p.Val, Text: p.Text, Tombstone: p.Tomb})
	}
	return ret
}

func poAbs(ps data.Points) []poPt {
	ret := []poPt{}
	for _, p := range ps {
		ret = append(ret, poPt{p.Type, p.Key, int(p.Time.Sub(poBase) / time.Hour), p.Value, p.Text, p.Tombstone})
	}
	return ret
}

func poEqual(a, b []poPt, asSet bool) bool {
	if len(a) != len(b) {
		return false
	}
	if asSet {
		a, b = append([]poPt{}, a...), append([]poPt{}, b...)
		key := func(p poPt) string { return fmt.Sprint(p) }
		sort.Slice(a, func(i, j int) bool { return key(a[i]) < key(a[j]) })
		sort.Slice(b, func(i, j int) bool { return key(b[i]) < key(b[j]) })
	}
	for i := range a {
		if a[i] != b[i] {
			return false
		}
	}
	return true
}

func init() {
	commands["pointops"] = func(args []string) error {
		fs := flag.NewFlagSet("pointops", flag.ExitOnError)
		casesF := fs.String("cases", "", "")
		out := fs.String("out", "", "")
		fs.Parse(args)
		cs, err := readJSONLines[poCase](*casesF)
		if err != nil {
			return err
		}
		res := &Result{Extra: map[string]any{}}
		var mu sync.Mutex
		per := map[string]int{}
		disagree := map[string]int{}
		nontriv := 0
		parallel(len(cs), 8, func(i int) {
			c := cs[i]
			var got, gotRet []poPt
			var pan any
			func() {
				defer func() { pan = recover() }()
				switch c.T {
				case "add":
					ps := poReal(c.Ps)
					ps.Add(poReal(c.In)[0])
					got = poAbs(ps)
				case "fold":
					ps := data.Points{}
					for _, p := range poReal(c.In) {
						ps.Add(p)
					}
					got = poAbs(ps)
				case "merge":
					ps := poReal(c.Ps)
					ret := ps.Merge(poReal(c.In), time.Duration(c.Mt)*time.Hour)
					got, gotRet = poAbs(ps), poAbs(ret)
				case "collapse":
					ps := poReal(c.Ps)
					ps.Collapse()
					got = poAbs(ps)
				}
			}()
			ok := pan == nil && poEqual(c.Out, got, c.T == "collapse")
			if ok && c.T == "merge" {
				ok = poEqual(c.Ret, gotRet, false)
			}
			mu.Lock()
			per[c.T]++
			if len(c.Ps)+len(c.In) > 1 {
				nontriv++
			}
			if !ok {
				disagree[c.T]++
			}
			mu.Unlock()
			if i%997 == 0 {
				res.sample(map[string]any{"case": c, "observed": got}, 6)
			}
			if !ok {
				cls := "pointops:" + c.T
				if c.T == "collapse" {
					cls = "C01:collapse"
				}
				what := fmt.Sprintf("data.Points %s: the real code's result differs from PointOps.tla", c.T)
				if pan != nil {
					what = fmt.Sprintf("data.Points %s panicked: %v", c.T, pan)
				}
				res.fail(Failure{Finding: cls, What: what, Case: c,
					Expected: map[string]any{"out": c.Out, "ret": c.Ret}, Observed: map[string]any{"out": got, "ret": gotRet}})
			}
		})
		res.Evaluations = len(cs)
		res.Traces = len(cs)
		res.DistinctNontrivial = nontriv
		res.Extra["cases_per_operation"] = per
		res.Extra["disagreements_per_operation"] = disagree
		return res.write(*out)
	}
}
