package main

import (
	"net/http"
	"path/filepath"
	"strings"
	"time"
)

func filepathGlob(p string) ([]string, error) { return filepath.Glob(p) }

// countRaces counts race reports that involve simpleiot code
func countRaces(s string) int {
	n := 0
	for _, rep := range strings.Split(s, "WARNING: DATA RACE")[1:] {
		if strings.Contains(rep, "github.com/simpleiot/simpleiot/") {
			n++
		}
	}
	return n
}

func httpNewRequest(method, url, bearer string) (*http.Request, error) {
	req, err := http.NewRequest(method, url, nil)
	if err == nil && bearer != "" {
		req.Header.Set("Authorization", "Bearer "+bearer)
	}
	return req, err
}

func httpStatus(req *http.Request) int {
	if req == nil {
		return 0
	}
	c := &http.Client{Timeout: 5 * time.Second}
	resp, err := c.Do(req)
	if err != nil {
		return 0
	}
	resp.Body.Close()
	return resp.StatusCode
}
