package main

import (
	"path/filepath"
	"strings"
)

func filepathGlob(p string) ([]string, error) { return filepath.Glob(p) }

// countRaces counts race reports that involve simpleiot code
func countRaces(s string) int {
	n := 0
	for _, rep := range strings.Split(s, "WARNING: DATA RACE")[1:] {
		if strings.Contains(rep, "github.com/simpleiot/simpleiot/") {
			n++
		}
	}
	return n
}
