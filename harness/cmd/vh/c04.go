package main

import (
	"bufio"
	"database/sql"
	"encoding/json"
	"flag"
	"fmt"
	"math/rand"
	"os"
	"os/exec"
	"strconv"
	"strings"
	"sync"
	"syscall"
	"time"

	"github.com/nats-io/nats.go"
	"github.com/simpleiot/simpleiot/client"
	"github.com/simpleiot/simpleiot/data"
)

// C04: a real instance runs as a child process; the parent sends acknowledged
// write batches, the child dies at an enumerated crash site (hook verifSite,
// armed over the bus) or at a random instant (SIGKILL from the parent), is
// restarted on the same file, and what the re-opened store shows is logged as
// a trace for TLC (Trace_StoreTxn.tla).

func init() {
	// ---- the child: a plain instance that can be told where to crash
	commands["c04child"] = func(args []string) error {
		fs := flag.NewFlagSet("c04child", flag.ExitOnError)
		dir := fs.String("dir", "", "")
		genID := fs.Bool("gen-id", false, "let the store generate its root id")
		fs.Parse(args)
		o := instOpts{dir: *dir, id: "crash-inst"}
		if *genID {
			o = instOpts{dir: *dir, genID: true}
		}
		in, err := startInstance(o)
		if err != nil {
			return err
		}
		in.nc.Subscribe("verif.arm", func(m *nats.Msg) {
			os.Setenv("VERIF_CRASH_AT", string(m.Data))
			m.Respond([]byte("armed"))
		})
		in.nc.Flush()
		fmt.Printf("READY %s %s %s\n", in.opts.NatsServer, in.opts.HTTPPort, in.root.ID)
		select {}
	}

	commands["c04"] = func(args []string) error {
		fs := flag.NewFlagSet("c04", flag.ExitOnError)
		out := fs.String("out", "", "")
		traceOut := fs.String("trace", "", "")
		seed := fs.Int64("seed", 1, "")
		occ := fs.Int("occurrences", 1, "crash at visits 1..n of every site")
		randomKills := fs.Int("random-kills", 6, "")
		fs.Parse(args)
		self, _ := os.Executable()
		res := &Result{Extra: map[string]any{}}
		var mu sync.Mutex
		var traces [][]map[string]any

		type child struct {
			cmd    *exec.Cmd
			nats   string
			http   string
			root   string
			stderr *strings.Builder
			done   chan struct{}
		}
		start := func(dir, crashAt string, genID bool) (*child, error) {
			cmd := exec.Command(self, "c04child", "--dir", dir, fmt.Sprintf("--gen-id=%v", genID))
			cmd.Env = append(os.Environ(), "VERIF_CRASH_AT="+crashAt)
			stdout, _ := cmd.StdoutPipe()
			c := &child{cmd: cmd, stderr: &strings.Builder{}, done: make(chan struct{})}
			errPipe, _ := cmd.StderrPipe()
			if err := cmd.Start(); err != nil {
				return nil, err
			}
			go func() {
				sc := bufio.NewScanner(errPipe)
				sc.Buffer(make([]byte, 1<<16), 1<<22)
				for sc.Scan() {
					if c.stderr.Len() < 1<<20 {
						c.stderr.WriteString(sc.Text() + "\n")
					}
				}
			}()
			ready := make(chan string, 1)
			go func() {
				sc := bufio.NewScanner(stdout)
				for sc.Scan() {
					if strings.HasPrefix(sc.Text(), "READY ") {
						ready <- sc.Text()
					}
				}
			}()
			go func() { cmd.Wait(); close(c.done) }()
			select {
			case ln := <-ready:
				f := strings.Fields(ln)
				c.nats, c.http, c.root = f[1], f[2], f[3]
				return c, nil
			case <-c.done:
				return c, fmt.Errorf("child exited before it was ready")
			case <-time.After(20 * time.Second):
				cmd.Process.Kill()
				return c, fmt.Errorf("child not ready after 20 s")
			}
		}
		readMeta := func(dir string) (string, string) {
			// a second connection to the file the instance has open: wait out its write transactions,
			// and retry rather than mistake a failed read for an empty root or key
			var root, down string
			var key []byte
			var roots int
			for attempt := 0; attempt < 30; attempt++ {
				db, err := sql.Open("sqlite", dir+"/siot.sqlite?_pragma=busy_timeout(5000)&mode=ro")
				if err != nil {
					time.Sleep(100 * time.Millisecond)
					continue
				}
				e1 := db.QueryRow("SELECT root_id, jwt_key FROM meta").Scan(&root, &key)
				// the instance has exactly one root: one edge below the sentinel, and it is the recorded one
				e2 := db.QueryRow("SELECT count(*) FROM edges WHERE up='root'").Scan(&roots)
				e3 := db.QueryRow("SELECT down FROM edges WHERE up='root'").Scan(&down)
				db.Close()
				if e1 == nil && e2 == nil && (e3 == nil || roots == 0) {
					break
				}
				time.Sleep(100 * time.Millisecond)
			}
			if roots != 1 || down != root {
				return fmt.Sprintf("INCONSISTENT(%d root edges, meta %q, edge %q)", roots, root, down), fmt.Sprintf("%x", key)
			}
			return root, fmt.Sprintf("%x", key)
		}
		type batch struct {
			name    string
			subject string
			pts     data.Points
			check   func(nc *nats.Conn) string // all | none | partial
		}
		mkBatches := func(root string) []batch {
			var bs []batch
			nodePts := func(name, node string) batch {
				tx, ty := name+"_x", name+"_y"
				return batch{name, "p." + node, data.Points{{Type: tx, Value: 1, Time: time.Now()}, {Type: ty, Text: "t", Time: time.Now()}, {Type: name + "_z", Value: 3, Time: time.Now()}},
					func(nc *nats.Conn) string {
						ns, err := client.GetNodes(nc, "all", node, "", true)
						if err != nil || len(ns) < 1 {
							return "none"
						}
						n := 0
						for _, p := range ns[0].Points {
							if strings.HasPrefix(p.Type, name+"_") {
								n++
							}
						}
						return map[int]string{0: "none", 3: "all"}[n] + map[bool]string{true: "partial", false: ""}[n != 0 && n != 3]
					}}
			}
			edgePts := func(name, node, parent string) batch {
				return batch{name, "p." + node + "." + parent, data.Points{{Type: name + "_x", Value: 1, Time: time.Now()}, {Type: name + "_y", Value: 2, Time: time.Now()}},
					func(nc *nats.Conn) string {
						ns, err := client.GetNodes(nc, parent, node, "", true)
						if err != nil || len(ns) < 1 {
							return "none"
						}
						n := 0
						for _, p := range ns[0].EdgePoints {
							if strings.HasPrefix(p.Type, name+"_") {
								n++
							}
						}
						return map[int]string{0: "none", 2: "all"}[n] + map[bool]string{true: "partial", false: ""}[n != 0 && n != 2]
					}}
			}
			newEdge := func(name, node, parent string) batch {
				return batch{name, "p." + node + "." + parent, data.Points{{Type: data.PointTypeTombstone, Value: 0, Time: time.Now()},
					{Type: data.PointTypeNodeType, Text: "device"}, {Type: name + "_x", Value: 1, Time: time.Now()}},
					func(nc *nats.Conn) string {
						ns, err := client.GetNodes(nc, parent, node, "", true)
						if err != nil || len(ns) < 1 {
							return "none"
						}
						n := 0
						for _, p := range ns[0].EdgePoints {
							if p.Type == name+"_x" || p.Type == data.PointTypeTombstone {
								n++
							}
						}
						if n == 2 {
							return "all"
						}
						return "partial"
					}}
			}
			bs = append(bs, nodePts("b1", "cB"), edgePts("b2", "cB", "cA"), newEdge("b3", "cC", "cB"), nodePts("b4", "cC"),
				nodePts("b5", "cA"), newEdge("b6", "cB", root), edgePts("b7", "cB", root), nodePts("b8", "cB"), newEdge("b9", "cD", "cA"), nodePts("b10", root))
			return bs
		}
		var allOK = func(nc *nats.Conn, root string) bool {
			// every edge reachable from the root: stored hash = documented definition
			ok := true
			var walk func(ne data.NodeEdge, depth int)
			walk = func(ne data.NodeEdge, depth int) {
				if depth > 8 {
					return
				}
				kids, err := client.GetNodes(nc, ne.ID, "all", "", true)
				if err != nil {
					ok = false
					return
				}
				var h uint32
				for _, p := range ne.Points {
					h ^= docCRC(p.Time, p.Type, p.Key, p.Text, p.Value)
				}
				for _, p := range ne.EdgePoints {
					h ^= docCRC(p.Time, p.Type, p.Key, p.Text, p.Value)
				}
				for _, k := range kids {
					h ^= k.Hash
					walk(k, depth+1)
				}
				if h != ne.Hash {
					ok = false
				}
			}
			rs, err := client.GetNodes(nc, "root", "all", "", true)
			if err != nil || len(rs) != 1 {
				return false
			}
			walk(rs[0], 0)
			return ok
		}

		// one experiment; armAfter: number of batches acknowledged before the crash site is armed
		experiment := func(name, site string, k, armAfter int, randomKill time.Duration, atStart bool) {
			dir, _ := os.MkdirTemp("", "verif-c04-")
			defer os.RemoveAll(dir)
			var tr []map[string]any
			add := func(e map[string]any) { tr = append(tr, e) }
			add(map[string]any{"ev": "Reset", "experiment": name})
			initCrash := strings.HasPrefix(site, "init.") || atStart
			// first-time initialisation is crashed both with a configured root id and with the
			// production default, where the store draws the id itself
			genID := strings.HasSuffix(name, "/gen")
			envSpec := ""
			if initCrash {
				envSpec = fmt.Sprintf("%s#%d", site, k)
			}
			c, err := start(dir, envSpec, genID)
			present := map[string]string{}
			rootBefore, keyBefore := "", ""
			token := ""
			bs := mkBatches("ROOT")
			for _, b := range bs {
				present[b.name] = "none"
			}
			if initCrash {
				if err == nil {
					// the site was not reached during initialisation (k too large): nothing to learn
					c.cmd.Process.Kill()
					<-c.done
					return
				}
				<-c.done
				add(map[string]any{"ev": "Crash", "site": envSpec})
			} else {
				if err != nil {
					res.fail(Failure{Finding: "infra", What: "child did not start: " + err.Error() + "\n" + c.stderr.String()})
					return
				}
				nc, err := nats.Connect(c.nats, nats.Timeout(5*time.Second), nats.MaxReconnects(0))
				if err != nil {
					c.cmd.Process.Kill()
					res.fail(Failure{Finding: "infra", What: "connect: " + err.Error()})
					return
				}
				bs = mkBatches(c.root)
				// fixed part of the tree: root -> cA -> cB
				client.SendNode(nc, data.NodeEdge{ID: "cA", Parent: c.root, Type: "device"}, "")
				client.SendNode(nc, data.NodeEdge{ID: "cB", Parent: "cA", Type: "device"}, "")
				rootBefore, keyBefore = readMeta(dir)
				if ns, err := client.UserCheck(nc, "admin@admin.com", "admin"); err == nil {
					for _, n := range ns {
						if n.Type == data.NodeTypeJWT {
							p, _ := n.Points.Find(data.PointTypeToken, "")
							token = p.Text
						}
					}
				}
				died := false
				for i, b := range bs {
					if i == armAfter && site != "" {
						if _, err := nc.Request("verif.arm", []byte(fmt.Sprintf("%s#%d", site, k)), 2*time.Second); err != nil {
							break
						}
					}
					if i == armAfter && randomKill > 0 {
						go func() {
							time.Sleep(randomKill)
							c.cmd.Process.Signal(syscall.SIGKILL)
						}()
					}
					add(map[string]any{"ev": "Issue", "b": b.name})
					payload, _ := b.pts.ToPb()
					m, err := nc.Request(b.subject, payload, 4*time.Second)
					if err == nil && len(m.Data) == 0 {
						add(map[string]any{"ev": "Ack", "b": b.name})
					}
					select {
					case <-c.done:
						died = true
					default:
					}
					if died || err != nil {
						break
					}
				}
				nc.Close()
				if !died {
					select {
					case <-c.done:
						died = true
					case <-time.After(300 * time.Millisecond):
					}
				}
				if !died {
					// the site was never visited by this history: still a crash experiment (kill between writes)
					c.cmd.Process.Signal(syscall.SIGKILL)
					<-c.done
				}
				add(map[string]any{"ev": "Crash", "site": fmt.Sprintf("%s#%d after %d", site, k, armAfter)})
			}
			// ---- restart on the same file
			c2, err := start(dir, "", genID)
			rec := map[string]any{"ev": "Recovered", "opens": err == nil, "rootSame": false, "keySame": false, "hashOK": false, "present": present}
			if err == nil {
				var nc2 *nats.Conn
				for attempt := 0; attempt < 4; attempt++ {
					if nc2, err = nats.Connect(c2.nats, nats.Timeout(5*time.Second), nats.MaxReconnects(0)); err == nil {
						break
					}
					time.Sleep(500 * time.Millisecond)
				}
				if err != nil {
					select {
					case <-c2.done:
						// the re-opened instance died after it had reported ready: behaviour of the code
						rec["error"] = "instance exited after start: " + c2.stderr.String()[max(0, c2.stderr.Len()-600):]
					default:
						// it runs but the driver cannot reach it: no verdict from this experiment
						c2.cmd.Process.Signal(syscall.SIGKILL)
						<-c2.done
						res.fail(Failure{Finding: "infra", What: "driver could not connect to the re-opened instance: " + err.Error()})
						return
					}
				}
				if err == nil {
					rootAfter, keyAfter := readMeta(dir)
					if initCrash {
						// nothing was observable before the crash: the recovered instance must keep what it
						// now reports over one more restart
						rootBefore, keyBefore = rootAfter, keyAfter
					}
					rec["rootSame"] = rootAfter == rootBefore && rootAfter != "" && c2.root == rootAfter && !strings.HasPrefix(rootAfter, "INCONSISTENT")
					rec["keySame"] = keyAfter == keyBefore && keyAfter != ""
					bs = mkBatches(c2.root)
					for _, b := range bs {
						present[b.name] = b.check(nc2)
					}
					err := client.AdminStoreVerify(nc2)
					time.Sleep(50 * time.Millisecond)
					rec["hashOK"] = err == nil && allOK(nc2, c2.root) && !strings.Contains(c2.stderr.String(), "Hash failed")
					if token != "" {
						// the token handed out before the crash is still accepted
						req, _ := httpNewRequest("GET", "http://127.0.0.1:"+c2.http+"/v1/nodes", token)
						if st := httpStatus(req); st != 200 {
							rec["keySame"] = false
						}
					}
					nc2.Close()
				} else {
					rec["opens"] = false
				}
				c2.cmd.Process.Signal(syscall.SIGKILL)
				<-c2.done
				if initCrash {
					// second restart: root and key stay
					c3, err := start(dir, "", genID)
					if err != nil {
						rec["opens"] = false
					} else {
						r3, k3 := readMeta(dir)
						if r3 != rootBefore || k3 != keyBefore {
							rec["rootSame"], rec["keySame"] = r3 == rootBefore, k3 == keyBefore
						}
						c3.cmd.Process.Signal(syscall.SIGKILL)
						<-c3.done
					}
				}
			} else {
				rec["error"] = err.Error() + " | " + c2.stderr.String()[max(0, c2.stderr.Len()-600):]
			}
			add(rec)
			mu.Lock()
			traces = append(traces, tr)
			mu.Unlock()
		}

		sites := []string{"np.begin", "np.upserted", "np.hashed", "np.committed", "ep.begin", "ep.upserted", "ep.edgeInserted",
			"ep.hashed", "ep.committed", "hash.step"}
		initSites := []string{"init.rootNode", "init.rootEdge", "init.adminNode", "init.adminEdge", "init.rootID", "init.jwtBefore"}
		type job struct {
			name, site string
			k, arm     int
			kill       time.Duration
			atStart    bool
		}
		var jobs []job
		rng := rand.New(rand.NewSource(*seed))
		for _, s := range sites {
			for k := 1; k <= *occ; k++ {
				jobs = append(jobs, job{fmt.Sprintf("%s#%d", s, k), s, k, rng.Intn(3), 0, false})
			}
			// the same sites during first-time initialisation (initRoot writes through the same transactions)
			for k := 1; k <= 3; k++ {
				jobs = append(jobs, job{fmt.Sprintf("start:%s#%d", s, k), s, k, 0, 0, true})
				jobs = append(jobs, job{fmt.Sprintf("start:%s#%d/gen", s, k), s, k, 0, 0, true})
			}
		}
		for _, s := range initSites {
			jobs = append(jobs, job{s + "#1", s, 1, 0, 0, false})
			jobs = append(jobs, job{s + "#1/gen", s, 1, 0, 0, false})
		}
		for i := 0; i < *randomKills; i++ {
			jobs = append(jobs, job{fmt.Sprintf("random-kill-%d", i), "", 0, rng.Intn(4), time.Duration(rng.Intn(9000)) * time.Microsecond, false})
		}
		parallel(len(jobs), 8, func(i int) {
			j := jobs[i]
			experiment(j.name, j.site, j.k, j.arm, j.kill, j.atStart)
		})
		// ---- write transactions larger than SQLite's page cache: their pages reach the store file before
		// the commit, so recovery depends on what the journal mode leaves on disk
		bigExperiment := func(name, site string) {
			dir, _ := os.MkdirTemp("", "verif-c04-")
			defer os.RemoveAll(dir)
			var tr []map[string]any
			add := func(e map[string]any) { tr = append(tr, e) }
			add(map[string]any{"ev": "Reset", "experiment": name})
			c, err := start(dir, "", false)
			if err != nil {
				res.fail(Failure{Finding: "infra", What: "child did not start: " + err.Error()})
				return
			}
			nc, err := nats.Connect(c.nats, nats.Timeout(5*time.Second), nats.MaxReconnects(0))
			if err != nil {
				c.cmd.Process.Kill()
				res.fail(Failure{Finding: "infra", What: "connect: " + err.Error()})
				return
			}
			client.SendNode(nc, data.NodeEdge{ID: "cA", Parent: c.root, Type: "device"}, "")
			const n = 20000
			mk := func(typ string) data.Points {
				pts := make(data.Points, n)
				now := time.Now()
				for i := range pts {
					pts[i] = data.Point{Type: typ, Key: strconv.Itoa(i), Value: float64(i), Time: now}
				}
				return pts
			}
			rootBefore, keyBefore := "", ""
			send := func(b, typ string) bool {
				add(map[string]any{"ev": "Issue", "b": b})
				pts := mk(typ)
				payload, _ := pts.ToPb()
				m, err := nc.Request("p.cA", payload, 60*time.Second)
				if err == nil && len(m.Data) == 0 {
					add(map[string]any{"ev": "Ack", "b": b})
					return true
				}
				return false
			}
			if !send("big1", "bigA") {
				c.cmd.Process.Kill()
				res.fail(Failure{Finding: "infra", What: "the first large batch was not acknowledged"})
				return
			}
			rootBefore, keyBefore = readMeta(dir)
			if _, err := nc.Request("verif.arm", []byte(site+"#1"), 2*time.Second); err != nil {
				c.cmd.Process.Kill()
				res.fail(Failure{Finding: "infra", What: "arming the crash site: " + err.Error()})
				return
			}
			send("big2", "bigB")
			nc.Close()
			select {
			case <-c.done:
			case <-time.After(2 * time.Second):
				c.cmd.Process.Signal(syscall.SIGKILL)
				<-c.done
			}
			add(map[string]any{"ev": "Crash", "site": site + "#1 inside a large batch"})
			c2, err := start(dir, "", false)
			present := map[string]string{"big1": "none", "big2": "none"}
			rec := map[string]any{"ev": "Recovered", "opens": err == nil, "rootSame": false, "keySame": false, "hashOK": false, "present": present}
			if err == nil {
				if nc2, err := nats.Connect(c2.nats, nats.Timeout(5*time.Second), nats.MaxReconnects(0)); err == nil {
					rootAfter, keyAfter := readMeta(dir)
					rec["rootSame"] = rootAfter == rootBefore && rootAfter != ""
					rec["keySame"] = keyAfter == keyBefore && keyAfter != ""
					if ns, err := client.GetNodes(nc2, "all", "cA", "", true); err == nil && len(ns) > 0 {
						cnt := map[string]int{}
						for _, p := range ns[0].Points {
							cnt[p.Type]++
						}
						for b, typ := range map[string]string{"big1": "bigA", "big2": "bigB"} {
							switch cnt[typ] {
							case 0:
								present[b] = "none"
							case n:
								present[b] = "all"
							default:
								present[b] = fmt.Sprintf("partial (%d of %d points)", cnt[typ], n)
							}
						}
					}
					err := client.AdminStoreVerify(nc2)
					time.Sleep(100 * time.Millisecond)
					rec["hashOK"] = err == nil && allOK(nc2, c2.root) && !strings.Contains(c2.stderr.String(), "Hash failed")
					nc2.Close()
				} else {
					rec["opens"] = false
					rec["error"] = "connect: " + err.Error()
				}
				c2.cmd.Process.Signal(syscall.SIGKILL)
				<-c2.done
			} else {
				rec["error"] = err.Error() + " | " + c2.stderr.String()[max(0, c2.stderr.Len()-600):]
			}
			add(rec)
			mu.Lock()
			traces = append(traces, tr)
			mu.Unlock()
		}
		for _, site := range []string{"np.upserted", "np.hashed"} {
			bigExperiment("big:"+site, site)
		}
		f, err := os.Create(*traceOut)
		if err != nil {
			return err
		}
		evs := 0
		for i, tr := range traces {
			for _, e := range tr {
				b, _ := json.Marshal(e)
				f.Write(append(b, '\n'))
				evs++
			}
			if i%7 == 0 {
				res.sample(map[string]any{"experiment": tr}, 4)
			}
		}
		f.Close()
		res.Evaluations = evs
		res.Traces = len(traces)
		res.DistinctNontrivial = len(traces)
		return res.write(*out)
	}
}
