package main

import (
	"flag"
	"fmt"
	"math/rand"
	"sync"
	"time"

	"github.com/simpleiot/simpleiot/client"
	"github.com/simpleiot/simpleiot/data"
)

// client.NodeWatcher (Watcher.tla): a writer numbers its writes to one point of a node while a watcher of
// that node is started at a random moment in between; the watcher's copy is sampled all the time.
// Watcher!Holds: once the writer has finished and the updates have been folded in, the copy is what the
// store holds.  Watcher!NoRegress is not what the code promises (its own FIXME): how often the copy was
// seen going back to an older write is counted and reported.  Beyond the listed properties: disagreements
// are reported, they fail no check.

type watchT struct {
	ID          string  `node:"id"`
	Parent      string  `node:"parent"`
	Description string  `point:"description"`
	Value       float64 `point:"value"`
}

func init() {
	commands["watcher"] = func(args []string) error {
		fs := flag.NewFlagSet("watcher", flag.ExitOnError)
		out := fs.String("out", "", "")
		seed := fs.Int64("seed", 1, "")
		trials := fs.Int("trials", 40, "")
		writes := fs.Int("writes", 30, "")
		fs.Parse(args)
		quietLogs()
		res := &Result{Extra: map[string]any{}}
		in, err := startInstance(instOpts{})
		if err != nil {
			return err
		}
		defer in.stop(true)
		nc, err := in.connect()
		if err != nil {
			return err
		}
		defer nc.Close()
		rng := rand.New(rand.NewSource(*seed))
		regress, holds, startedMid, lostInFlight := 0, 0, 0, 0
		for t := 0; t < *trials; t++ {
			id := fmt.Sprintf("watched-%d-%d", *seed, t)
			if err := client.SendNode(nc, data.NodeEdge{ID: id, Parent: in.root.ID, Type: "watchT",
				Points: data.Points{{Type: "description", Key: "0", Text: "w"}}}, "driver"); err != nil {
				return err
			}
			startAfter := rng.Intn(*writes)
			if t%3 == 0 {
				// the watcher starts while the last write is on its way to the store
				startAfter = *writes - 1
			}
			var wg sync.WaitGroup
			wg.Add(1)
			written := make(chan int, *writes+1)
			go func() {
				defer wg.Done()
				wnc, err := in.connect()
				if err != nil {
					return
				}
				defer wnc.Close()
				for k := 1; k <= *writes; k++ {
					client.SendNodePoint(wnc, id, data.Point{Type: "value", Key: "0", Time: time.Now(), Value: float64(k), Origin: "writer"}, true)
					written <- k
				}
			}()
			for k := 0; k < startAfter; k++ {
				<-written
			}
			get, stop, err := client.NodeWatcher[watchT](nc, id, in.root.ID)
			if err != nil {
				wg.Wait()
				res.fail(Failure{Finding: "watcher:start", What: "NodeWatcher failed: " + err.Error()})
				continue
			}
			if startAfter > 0 && startAfter < *writes {
				startedMid++
			}
			high, went := 0.0, false
			doneW := make(chan struct{})
			go func() { wg.Wait(); close(doneW) }()
			sample := func() {
				v := get().Value
				if v < high {
					went = true
				}
				if v > high {
					high = v
				}
			}
		loop:
			for {
				select {
				case <-doneW:
					break loop
				default:
					sample()
				}
			}
			// quiescence: the last write has been acknowledged; give the subscription time to hand over what it holds
			deadline := time.Now().Add(2 * time.Second)
			final := get().Value
			for final != float64(*writes) && time.Now().Before(deadline) {
				time.Sleep(10 * time.Millisecond)
				final = get().Value
			}
			stored := -1.0
			if ns, err := client.GetNodes(nc, in.root.ID, id, "", false); err == nil && len(ns) == 1 {
				stored, _ = ns[0].Points.Value("value", "0")
			}
			stop()
			res.Evaluations++
			if went {
				regress++
			}
			switch {
			case final == stored && stored == float64(*writes):
				holds++
			case stored == float64(*writes) && final == float64(*writes-1) && startAfter == *writes-1:
				// Watcher.tla, AsCoded: the last write was published before the subscription existed and applied
				// after the watcher's read
				lostInFlight++
				res.fail(Failure{Finding: "watcher:lost-in-flight", What: fmt.Sprintf("the watcher's copy stays at write %v, the store holds %v: the write that was on its way when the watcher started is never seen (as the as-coded model allows)", final, stored),
					Case: map[string]any{"trial": t, "watcher_started_after_write": startAfter}})
			default:
				res.fail(Failure{Finding: "watcher:holds", What: fmt.Sprintf("after %d writes the watcher's copy holds %v, the store holds %v", *writes, final, stored),
					Case: map[string]any{"trial": t, "watcher_started_after_write": startAfter}})
			}
			res.sample(map[string]any{"trial": t, "watcher_started_after_write": startAfter, "final_copy": final, "store": stored, "copy_went_back": went}, 5)
		}
		res.Traces = *trials
		res.DistinctNontrivial = startedMid
		res.Extra["trials_in_which_the_copy_held_the_store_value_at_quiescence"] = holds
		res.Extra["trials_in_which_the_copy_was_seen_going_back"] = regress
		res.Extra["trials_in_which_the_write_in_flight_at_start_was_never_seen"] = lostInFlight
		return res.write(*out)
	}
}
