package main

import (
	"encoding/binary"
	"encoding/json"
	"flag"
	"fmt"
	"os"
	"sort"
	"strings"
	"sync"
	"time"

	"github.com/kjx98/crc16"
	"github.com/nats-io/nats.go"
	"github.com/simpleiot/simpleiot/client"
	"github.com/simpleiot/simpleiot/data"
	"github.com/simpleiot/simpleiot/server"
	"github.com/simpleiot/simpleiot/test"
)

// Serial link sessions (Serial.tla, MC_Serial.tla): a scripted device on the far end of the
// fifo "serial port" of a real serial client, a spy on the bus.  After every step the frames the
// device received and what the host published are compared with Serial!Step.  Only the C17 clause
// (a damaged packet is neither acknowledged nor forwarded) raises an alarm; everything else the
// specification says about the link is reported as agreement figures.

type serOp struct {
	K     string   `json:"k"`
	Seq   int      `json:"seq"`
	Types []string `json:"types"`
}
type serFrame struct {
	Kind  string   `json:"kind"`
	Seq   int      `json:"seq"`
	Types []string `json:"types"`
}
type serStep struct {
	Op     serOp      `json:"op"`
	Frames []serFrame `json:"frames"`
	Pubs   []struct {
		Subject string   `json:"subject"`
		Types   []string `json:"types"`
	} `json:"pubs"`
}

func serRaw(seq byte, subject string, payload []byte, goodCRC bool) []byte {
	b := []byte{seq}
	sub := make([]byte, 16)
	copy(sub, subject)
	b = append(b, sub...)
	b = append(b, payload...)
	crc := crc16.ChecksumCCITT(b)
	if !goodCRC {
		crc ^= 0x0410
	}
	return binary.LittleEndian.AppendUint16(b, crc)
}

func serialSession(steps []serStep, idx int) (agree, disagree int, alarms []Failure, examples []any, err error) {
	fifo, err := test.NewFifoA("serialfifo")
	if err != nil {
		return 0, 0, nil, nil, err
	}
	dev := client.NewCobsWrapper(fifo, 500)
	defer dev.Close()
	in, err := startInstance(instOpts{extra: func(s *server.Server, nc *nats.Conn) {
		s.AddClient(client.NewManager(nc, client.NewSerialDevClient, nil))
	}})
	if err != nil {
		return 0, 0, nil, nil, err
	}
	defer in.stop(true)
	nc, err := in.connect()
	if err != nil {
		return 0, 0, nil, nil, err
	}
	defer nc.Close()
	serialID := fmt.Sprintf("serial-%d", idx)
	var mu sync.Mutex
	var frames []serFrame
	var pubs []string // "node:<types>" / "phrup"
	devTypes := map[string]bool{"value": true, "temp": true}
	nc.Subscribe("p."+serialID, func(m *nats.Msg) {
		pts, err := data.PbDecodePoints(m.Data)
		if err != nil {
			return
		}
		var ts []string
		for _, p := range pts {
			if p.Origin == "user" || !devTypes[p.Type] {
				ts = nil
				break
			}
			ts = append(ts, p.Type)
		}
		if len(ts) > 0 {
			mu.Lock()
			pubs = append(pubs, "node:"+strings.Join(ts, ","))
			mu.Unlock()
		}
	})
	nc.Subscribe("phrup.>", func(m *nats.Msg) {
		mu.Lock()
		pubs = append(pubs, "phrup:")
		mu.Unlock()
	})
	nc.Flush()
	go func() {
		for {
			buf := make([]byte, 600)
			n, err := dev.Read(buf)
			if err != nil {
				if err == client.ErrCobsDecodeError || err == client.ErrCobsTooMuchData {
					continue
				}
				return
			}
			if n == 0 {
				continue
			}
			seq, subject, payload, err := client.SerialDecode(buf[:n])
			if err != nil {
				continue
			}
			f := serFrame{Kind: "pts", Seq: int(seq), Types: []string{}}
			if subject == "ack" {
				f.Kind = "ack"
			} else if pts, err := data.PbDecodeSerialPoints(payload); err == nil {
				for _, p := range pts {
					f.Types = append(f.Types, p.Type)
				}
			}
			mu.Lock()
			frames = append(frames, f)
			mu.Unlock()
		}
	}()
	err = client.SendNodeType(nc, client.SerialDev{ID: serialID, Parent: in.root.ID, Description: "verif serial", Port: "serialfifo"}, "user")
	if err != nil {
		return 0, 0, nil, nil, err
	}
	// the host opens the port and sends its time sync packet (number 1)
	deadline := time.Now().Add(5 * time.Second)
	for {
		mu.Lock()
		n := len(frames)
		mu.Unlock()
		if n > 0 {
			break
		}
		if time.Now().After(deadline) {
			return 0, 0, nil, nil, fmt.Errorf("the serial client did not open the port (no time sync packet)")
		}
		time.Sleep(20 * time.Millisecond)
	}
	time.Sleep(300 * time.Millisecond)
	mu.Lock()
	frames, pubs = nil, nil
	mu.Unlock()
	for si, st := range steps {
		var pts data.Points
		for i, t := range st.Op.Types {
			pts = append(pts, data.Point{Type: t, Value: float64(10*si + i + 1), Text: "t", Time: time.Now()})
		}
		seq := byte(st.Op.Seq)
		var wire []byte
		switch st.Op.K {
		case "pts", "empty":
			wire, _ = client.SerialEncode(seq, "", pts)
		case "bad":
			wire, _ = client.SerialEncode(seq, "", data.Points{{Type: "value", Value: 5, Time: time.Now()}})
			wire[20] ^= 0x10
		case "short":
			wire = []byte{seq, 'x', 'y', 0, 0, 0, 0, 0, 0, 0}
		case "hr", "badhr":
			hr := make([]byte, 16+16+8+4+8)
			copy(hr, "voltage")
			copy(hr[16:], "A")
			binary.LittleEndian.PutUint64(hr[32:], uint64(time.Now().UnixNano()))
			binary.LittleEndian.PutUint32(hr[40:], 1000000)
			wire = serRaw(seq, "phr", hr, st.Op.K == "hr")
		case "write":
			for i := range pts {
				pts[i].Origin = "user"
			}
			if err := client.SendNodePoints(nc, serialID, pts, true); err != nil {
				return agree, disagree, alarms, examples, fmt.Errorf("write to the serial node refused: %v", err)
			}
		}
		if wire != nil {
			if _, err := dev.Write(wire); err != nil {
				return agree, disagree, alarms, examples, err
			}
		}
		time.Sleep(250 * time.Millisecond)
		mu.Lock()
		gotF, gotP := frames, pubs
		frames, pubs = nil, nil
		mu.Unlock()
		var wantP []string
		for _, p := range st.Pubs {
			wantP = append(wantP, p.Subject+":"+strings.Join(p.Types, ","))
		}
		show := func(fs []serFrame) string {
			var s []string
			for _, f := range fs {
				s = append(s, fmt.Sprintf("%s#%d[%s]", f.Kind, f.Seq, strings.Join(f.Types, ",")))
			}
			return strings.Join(s, " ")
		}
		sort.Strings(gotP)
		sort.Strings(wantP)
		same := show(gotF) == show(st.Frames) && strings.Join(gotP, ";") == strings.Join(wantP, ";")
		if same {
			agree++
		} else {
			disagree++
			if len(examples) < 4 {
				examples = append(examples, map[string]any{"session": idx, "step": si, "op": st.Op, "device_received": show(gotF), "specification": show(st.Frames),
					"published": gotP, "specification_published": wantP})
			}
		}
		if (st.Op.K == "bad" || st.Op.K == "short" || st.Op.K == "badhr") && (len(gotF) > 0 || len(gotP) > 0) {
			alarms = append(alarms, Failure{Finding: "C17:damaged-packet-not-silent",
				What: fmt.Sprintf("a packet that fails its checksum (%s) was answered or forwarded: device received %q, host published %v", st.Op.K, show(gotF), gotP),
				Case: map[string]any{"session": idx, "step": si, "op": st.Op}})
		}
	}
	return agree, disagree, alarms, examples, nil
}

func init() {
	commands["serial"] = func(args []string) error {
		fs := flag.NewFlagSet("serial", flag.ExitOnError)
		casesF := fs.String("cases", "", "")
		out := fs.String("out", "", "")
		fs.Parse(args)
		quietLogs()
		sessions, err := readJSONLines[[]serStep](*casesF)
		if err != nil {
			return err
		}
		dir, err := os.MkdirTemp("", "verif-serial-")
		if err != nil {
			return err
		}
		defer os.RemoveAll(dir)
		if err := os.Chdir(dir); err != nil { // the fifo "port" lives in the working directory
			return err
		}
		res := &Result{Extra: map[string]any{}}
		agree, disagree, notRun := 0, 0, 0
		var examples []any
		for i, s := range sessions {
			a, d, alarms, ex, err := serialSession(s, i)
			agree += a
			disagree += d
			examples = append(examples, ex...)
			for _, f := range alarms {
				res.fail(f)
			}
			if err != nil {
				notRun++
				res.Extra[fmt.Sprintf("session_%d_stopped", i)] = err.Error()
			}
		}
		res.Evaluations = agree + disagree
		res.Traces = len(sessions)
		res.DistinctNontrivial = len(sessions)
		res.Extra["serial_steps_agree_with_Serial_tla"] = agree
		res.Extra["serial_steps_disagree"] = disagree
		res.Extra["sessions_stopped_early"] = notRun
		if len(examples) > 4 {
			examples = examples[:4]
		}
		res.Extra["disagreements"] = examples
		b, _ := json.Marshal(res.Extra)
		fmt.Println(string(b))
		return res.write(*out)
	}
}
