package main

import (
	"bytes"
	"context"
	"fmt"
	"log"
	"net"
	"os"
	"path/filepath"
	"strconv"
	"strings"
	"sync"
	"syscall"
	"time"

	"github.com/nats-io/nats.go"
	"github.com/simpleiot/simpleiot/client"
	"github.com/simpleiot/simpleiot/data"
	"github.com/simpleiot/simpleiot/server"
)

// A real simpleiot instance started through the production wiring
// (server.NewServer + Run): NATS server, store, HTTP API, client managers.

type instance struct {
	opts    server.Options
	srv     *server.Server
	nc      *nats.Conn // the server's own connection
	root    data.NodeEdge
	dir     string
	stopped chan struct{}
	runErr  error
}

// Ports for the instances.  A port that was found free by listening on :0 and closing again can be handed out a
// second time before the first instance has bound it - by this process (instances are started in parallel) or by
// another check running at the same time; the second NATS server then fails to bind while its instance's clients
// quietly connect to the first one, and two stores share one bus.  So ports come from blocks of 64 that a process
// claims for itself (an flock on a file per block, held until the process ends; below the range the kernel uses for
// outgoing connections) and within its blocks a process never hands out a port twice.
var (
	portMu    sync.Mutex
	portNext  int
	portEnd   int
	portLocks []*os.File
	portSeen  = map[int]bool{}
)

const (
	portBase   = 10000
	portBlock  = 64
	portBlocks = 340 // up to 31760
)

var portStarts []int // first port of every block this process holds
var portCycle int

func claimPortBlock() bool {
	if len(portStarts) >= 8 {
		// enough for every instance that lives at one time: go round the blocks again (a port that is still
		// bound is skipped by the listen test)
		portNext = portStarts[portCycle%len(portStarts)]
		portEnd = portNext + portBlock
		portCycle++
		return true
	}
	dir := filepath.Join(os.TempDir(), "verif-portlocks")
	if err := os.MkdirAll(dir, 0o777); err != nil {
		return false
	}
	start := (os.Getpid()*7919 + len(portLocks)*31) % portBlocks
	for k := 0; k < portBlocks; k++ {
		b := (start + k) % portBlocks
		f, err := os.OpenFile(filepath.Join(dir, fmt.Sprintf("block-%d.lock", b)), os.O_CREATE|os.O_RDWR, 0o666)
		if err != nil {
			continue
		}
		if syscall.Flock(int(f.Fd()), syscall.LOCK_EX|syscall.LOCK_NB) != nil {
			f.Close()
			continue
		}
		portLocks = append(portLocks, f)
		portNext = portBase + b*portBlock
		portEnd = portNext + portBlock
		portStarts = append(portStarts, portNext)
		return true
	}
	return false
}

func freePorts(n int) ([]int, error) {
	portMu.Lock()
	defer portMu.Unlock()
	var ports []int
	for tries := 0; len(ports) < n && tries < 20000; tries++ {
		if portNext >= portEnd && !claimPortBlock() {
			break
		}
		p := portNext
		portNext++
		l, err := net.Listen("tcp", fmt.Sprintf(":%d", p))
		if err != nil {
			continue // something else listens there
		}
		l.Close()
		ports = append(ports, p)
	}
	// no lock directory, or every block taken: ports the kernel finds free, never the same one twice in this process
	for tries := 0; len(ports) < n && tries < 1000; tries++ {
		l, err := net.Listen("tcp", "127.0.0.1:0")
		if err != nil {
			return nil, err
		}
		p := l.Addr().(*net.TCPAddr).Port
		l.Close()
		if !portSeen[p] {
			portSeen[p] = true
			ports = append(ports, p)
		}
	}
	if len(ports) < n {
		return nil, fmt.Errorf("no free ports")
	}
	return ports, nil
}

type instOpts struct {
	dir       string // store directory (created); empty = temp dir
	id        string
	genID     bool // leave Options.ID empty: the store generates the root id itself (the production default)
	authToken string
	clients   bool // add client.DefaultClients
	storeFile string
	extra     func(s *server.Server, nc *nats.Conn) // e.g. add an instrumented client manager
}

func startInstance(o instOpts) (*instance, error) {
	var lastErr error
	for attempt := 0; attempt < 3; attempt++ {
		in, err := startInstanceOnce(o)
		if err == nil {
			return in, nil
		}
		lastErr = err
		time.Sleep(200 * time.Millisecond)
	}
	return nil, lastErr
}

func startInstanceOnce(o instOpts) (*instance, error) {
	ports, err := freePorts(4)
	if err != nil {
		return nil, err
	}
	dir := o.dir
	if dir == "" {
		dir, err = os.MkdirTemp("", "verif-inst-")
		if err != nil {
			return nil, err
		}
	}
	file := o.storeFile
	if file == "" {
		file = filepath.Join(dir, "siot.sqlite")
	}
	id := o.id
	if id == "" && !o.genID {
		id = "inst-" + strconv.Itoa(ports[0])
	}
	opts := server.Options{
		StoreFile:    file,
		NatsPort:     ports[0],
		HTTPPort:     strconv.Itoa(ports[1]),
		NatsHTTPPort: ports[2],
		NatsWSPort:   ports[3],
		NatsServer:   fmt.Sprintf("nats://127.0.0.1:%d", ports[0]),
		AuthToken:    o.authToken,
		ID:           id,
	}
	s, nc, err := server.NewServer(opts)
	if err != nil {
		return nil, fmt.Errorf("NewServer: %w", err)
	}
	if o.clients {
		clients, _ := client.DefaultClients(nc)
		s.AddClient(clients)
	}
	if o.extra != nil {
		o.extra(s, nc)
	}
	in := &instance{opts: opts, srv: s, nc: nc, dir: dir, stopped: make(chan struct{})}
	go func() {
		in.runErr = s.Run()
		close(in.stopped)
	}()
	ctx, cancel := context.WithTimeout(context.Background(), 10*time.Second)
	err = s.WaitStart(ctx)
	cancel()
	if err != nil {
		in.stop(false)
		return nil, fmt.Errorf("WaitStart: %w", err)
	}
	// the store answers once its subscriptions are in place
	deadline := time.Now().Add(10 * time.Second)
	for {
		nodes, err := client.GetNodes(nc, "root", "all", "", false)
		if err == nil && len(nodes) > 0 {
			in.root = nodes[0]
			break
		}
		if time.Now().After(deadline) {
			in.stop(false)
			return nil, fmt.Errorf("root node not available: %v", err)
		}
		time.Sleep(20 * time.Millisecond)
	}
	return in, nil
}

// connect opens an additional client connection to the instance.
func (in *instance) connect() (*nats.Conn, error) {
	return nats.Connect(in.opts.NatsServer, nats.Token(in.opts.AuthToken), nats.Timeout(5*time.Second))
}

// stop stops the instance; returns false if Run did not return within 15 s.
func (in *instance) stop(removeDir bool) bool {
	in.srv.Stop(nil)
	ok := true
	select {
	case <-in.stopped:
	case <-time.After(15 * time.Second):
		ok = false
	}
	if removeDir && in.dir != "" {
		os.RemoveAll(in.dir)
	}
	return ok
}

// hashFailTap swallows the instances' log output and keeps the lines in which a store
// verification reports a hash mismatch ("Hash failed for ..."): verifyNodeHashes only logs them.
type logTap struct {
	mu    sync.Mutex
	lines []string
}

func (t *logTap) Write(p []byte) (int, error) {
	if bytes.Contains(p, []byte("Hash failed for")) {
		t.mu.Lock()
		if len(t.lines) < 200 {
			t.lines = append(t.lines, strings.TrimSpace(string(p)))
		}
		t.mu.Unlock()
	}
	return len(p), nil
}

func (t *logTap) take() []string {
	t.mu.Lock()
	defer t.mu.Unlock()
	l := t.lines
	t.lines = nil
	return l
}

var hashFailTap = &logTap{}

func quietLogs() {
	log.SetOutput(hashFailTap)
}
