package main

import (
	"bytes"
	"context"
	"fmt"
	"log"
	"net"
	"os"
	"path/filepath"
	"strconv"
	"strings"
	"sync"
	"time"

	"github.com/nats-io/nats.go"
	"github.com/simpleiot/simpleiot/client"
	"github.com/simpleiot/simpleiot/data"
	"github.com/simpleiot/simpleiot/server"
)

// A real simpleiot instance started through the production wiring
// (server.NewServer + Run): NATS server, store, HTTP API, client managers.

type instance struct {
	opts    server.Options
	srv     *server.Server
	nc      *nats.Conn // the server's own connection
	root    data.NodeEdge
	dir     string
	stopped chan struct{}
	runErr  error
}

var portMu sync.Mutex

func freePorts(n int) ([]int, error) {
	portMu.Lock()
	defer portMu.Unlock()
	var ls []net.Listener
	var ports []int
	for i := 0; i < n; i++ {
		l, err := net.Listen("tcp", "127.0.0.1:0")
		if err != nil {
			return nil, err
		}
		ls = append(ls, l)
		ports = append(ports, l.Addr().(*net.TCPAddr).Port)
	}
	for _, l := range ls {
		l.Close()
	}
	return ports, nil
}

type instOpts struct {
	dir       string // store directory (created); empty = temp dir
	id        string
	genID     bool // leave Options.ID empty: the store generates the root id itself (the production default)
	authToken string
	clients   bool // add client.DefaultClients
	storeFile string
	extra     func(s *server.Server, nc *nats.Conn) // e.g. add an instrumented client manager
}

func startInstance(o instOpts) (*instance, error) {
	var lastErr error
	for attempt := 0; attempt < 3; attempt++ {
		in, err := startInstanceOnce(o)
		if err == nil {
			return in, nil
		}
		lastErr = err
		time.Sleep(200 * time.Millisecond)
	}
	return nil, lastErr
}

func startInstanceOnce(o instOpts) (*instance, error) {
	ports, err := freePorts(4)
	if err != nil {
		return nil, err
	}
	dir := o.dir
	if dir == "" {
		dir, err = os.MkdirTemp("", "verif-inst-")
		if err != nil {
			return nil, err
		}
	}
	file := o.storeFile
	if file == "" {
		file = filepath.Join(dir, "siot.sqlite")
	}
	id := o.id
	if id == "" && !o.genID {
		id = "inst-" + strconv.Itoa(ports[0])
	}
	opts := server.Options{
		StoreFile:    file,
		NatsPort:     ports[0],
		HTTPPort:     strconv.Itoa(ports[1]),
		NatsHTTPPort: ports[2],
		NatsWSPort:   ports[3],
		NatsServer:   fmt.Sprintf("nats://127.0.0.1:%d", ports[0]),
		AuthToken:    o.authToken,
		ID:           id,
	}
	s, nc, err := server.NewServer(opts)
	if err != nil {
		return nil, fmt.Errorf("NewServer: %w", err)
	}
	if o.clients {
		clients, _ := client.DefaultClients(nc)
		s.AddClient(clients)
	}
	if o.extra != nil {
		o.extra(s, nc)
	}
	in := &instance{opts: opts, srv: s, nc: nc, dir: dir, stopped: make(chan struct{})}
	go func() {
		in.runErr = s.Run()
		close(in.stopped)
	}()
	ctx, cancel := context.WithTimeout(context.Background(), 10*time.Second)
	err = s.WaitStart(ctx)
	cancel()
	if err != nil {
		in.stop(false)
		return nil, fmt.Errorf("WaitStart: %w", err)
	}
	// the store answers once its subscriptions are in place
	deadline := time.Now().Add(10 * time.Second)
	for {
		nodes, err := client.GetNodes(nc, "root", "all", "", false)
		if err == nil && len(nodes) > 0 {
			in.root = nodes[0]
			break
		}
		if time.Now().After(deadline) {
			in.stop(false)
			return nil, fmt.Errorf("root node not available: %v", err)
		}
		time.Sleep(20 * time.Millisecond)
	}
	return in, nil
}

// connect opens an additional client connection to the instance.
func (in *instance) connect() (*nats.Conn, error) {
	return nats.Connect(in.opts.NatsServer, nats.Token(in.opts.AuthToken), nats.Timeout(5*time.Second))
}

// stop stops the instance; returns false if Run did not return within 15 s.
func (in *instance) stop(removeDir bool) bool {
	in.srv.Stop(nil)
	ok := true
	select {
	case <-in.stopped:
	case <-time.After(15 * time.Second):
		ok = false
	}
	if removeDir && in.dir != "" {
		os.RemoveAll(in.dir)
	}
	return ok
}

// hashFailTap swallows the instances' log output and keeps the lines in which a store
// verification reports a hash mismatch ("Hash failed for ..."): verifyNodeHashes only logs them.
type logTap struct {
	mu    sync.Mutex
	lines []string
}

func (t *logTap) Write(p []byte) (int, error) {
	if bytes.Contains(p, []byte("Hash failed for")) {
		t.mu.Lock()
		if len(t.lines) < 200 {
			t.lines = append(t.lines, strings.TrimSpace(string(p)))
		}
		t.mu.Unlock()
	}
	return len(p), nil
}

func (t *logTap) take() []string {
	t.mu.Lock()
	defer t.mu.Unlock()
	l := t.lines
	t.lines = nil
	return l
}

var hashFailTap = &logTap{}

func quietLogs() {
	log.SetOutput(hashFailTap)
}
