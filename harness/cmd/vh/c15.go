package main

import (
	"flag"
	"fmt"
	"math"
	"sort"
	"strings"
	"sync"

	"github.com/nats-io/nats.go"
	"github.com/simpleiot/simpleiot/client"
	"github.com/simpleiot/simpleiot/data"
)

// C15: trees printed by TLC (Export.tla) are built on a real instance,
// exported with client.ExportNodes, imported with client.ImportNodes (same
// instance under another parent; another instance with and without id
// preservation) and the imported subtree is compared with the tree the
// specification predicts (Import(Export(t))).

type ePt struct {
	Type string `json:"type"`
	Key  string `json:"key"`
	Val  int    `json:"val"`
	Txt  string `json:"txt"`
	Tomb int    `json:"tomb"`
}

type eNode struct {
	ID      string `json:"id"`
	Parent  string `json:"parent"`
	Deleted bool   `json:"deleted"`
	Type    string `json:"type"`
	Pts     []ePt  `json:"pts"`
	Epts    []ePt  `json:"epts"`
}

type eCase struct {
	Tree    []eNode  `json:"tree"`
	Live    []string `json:"live"`
	ImpKeep []eNode  `json:"impKeep"`
	ImpNew  []eNode  `json:"impNew"`
}

// texts that YAML could read as something else than the string they are
var yamlTexts = []string{"plain text", "Ünï✓ødé 日本", "yes", "no", "null", "~", "- x", "a: b", "#c", "\"quoted\"", "'single'",
	" leading", "trailing ", "multi\nline", "0123", "1e3", "0x10", "true", "{a: 1}", "[1, 2]", "`", "@at", "%pct", "!tag", "&anchor", "*alias",
	"|", ">", "tab\there", "colon:", "key: value # comment", "😀", "", "-", "?", "2001-01-01", ".inf", "1_000", ".nan", "-.inf", "Null", "- - y", "-x", "nulls",
	// multi-line texts (scripts, notes): indentation, blank lines and line ends are content
	"  if x > 3 {\n      y = 1\n  }", " \n", "\nstarts with a newline", "ends with a newline\n", "a\n\nb", "\tfirst\n\t\tsecond",
	"x\n  y\n", "  - item\n  - item2", "two\n\n", "a\n b\n  c",
	// a description that already carries the import marker (the export of an imported tree)
	"plant A (import)", "(import)"}

// input class of the known finding F15a: texts that the YAML library writes
// unquoted although YAML reads them back as null, as a special float, or as the
// start of a block sequence
func yamlAmbiguous(s string) bool {
	switch strings.ToLower(s) {
	case "null", "~", ".inf", "-.inf", "+.inf", ".nan":
		return true
	}
	return s == "-" || strings.HasPrefix(s, "- ")
}

type eConc struct {
	pfx   string
	texts map[string]string // T1.. -> concrete
}

func (c *eConc) id(n string) string { return c.pfx + n }

func (c *eConc) text(p ePt, idOf func(string) string) string {
	t := p.Txt
	if p.Type == "vname" {
		return t
	}
	if p.Type == "nodeID" {
		if t == "" {
			return ""
		}
		return idOf(t)
	}
	marked := strings.HasSuffix(t, " (import)")
	t = strings.TrimSuffix(t, " (import)")
	if v, ok := c.texts[t]; ok {
		t = v
	}
	if marked {
		t += " (import)"
	}
	return t
}

func (c *eConc) point(p ePt, idOf func(string) string) data.Point {
	v := float64(p.Val) * 1.25
	if p.Type == "tombstone" {
		v = float64(p.Val)
	}
	return data.Point{Type: p.Type, Key: p.Key, Value: v, Text: c.text(p, idOf), Tombstone: p.Tomb}
}

type eKey struct{ typ, key string }

func ptsMap(ps data.Points, dropTomb0 bool) map[eKey]data.Point {
	m := map[eKey]data.Point{}
	for _, p := range ps {
		if dropTomb0 && p.Type == data.PointTypeTombstone && p.Value == 0 {
			continue
		}
		k := p.Key
		if k == "" {
			k = "0"
		}
		m[eKey{p.Type, k}] = p
	}
	return m
}

func walkAll(nc *nats.Conn, parent string, out *[]data.NodeEdge) error {
	kids, err := client.GetNodes(nc, parent, "all", "", true)
	if err != nil {
		return err
	}
	for _, k := range kids {
		*out = append(*out, k)
		if err := walkAll(nc, k.ID, out); err != nil {
			return err
		}
	}
	return nil
}

func init() {
	commands["c15"] = func(args []string) error {
		fs := flag.NewFlagSet("c15", flag.ExitOnError)
		casesF := fs.String("cases", "", "")
		out := fs.String("out", "", "")
		seed := fs.Int("seed", 1, "")
		concs := fs.Int("conc", 1, "text concretisations per tree")
		fs.Parse(args)
		quietLogs()
		cs, err := readJSONLines[eCase](*casesF)
		if err != nil {
			return err
		}
		res := &Result{Extra: map[string]any{}}
		var mu sync.Mutex
		evals, imports := 0, 0
		nontriv := map[string]bool{}
		textsSeen := map[string]int{}
		// a fresh pair of instances for every 600 trees: thousands of subtrees below one root make
		// every request slower
		const perPair = 600
		total := len(cs) * *concs
		for lo := 0; lo < total; lo += perPair {
			hi := min(lo+perPair, total)
			inA, err := startInstance(instOpts{})
			if err != nil {
				return err
			}
			inB, err := startInstance(instOpts{})
			if err != nil {
				inA.stop(true)
				return err
			}
			parallel(hi-lo, 8, func(job int) {
				job += lo
				ci, k := job / *concs, job%*concs
				c := cs[ci]
				conc := &eConc{pfx: fmt.Sprintf("e%d-%d-%d-", *seed, ci, k), texts: map[string]string{}}
				for ti, t := range []string{"T1", "T2", "T3"} {
					conc.texts[t] = yamlTexts[(*seed*7+ci*3+k*11+ti*5)%len(yamlTexts)]
				}
				ncA, errA := inA.connect()
				ncB, errB := inB.connect()
				if errA != nil || errB != nil {
					res.fail(Failure{Finding: "infra", What: "connect failed"})
					return
				}
				defer ncA.Close()
				defer ncB.Close()
				caseInfo := func(extra map[string]any) map[string]any {
					m := map[string]any{"tree": c.Tree, "texts": conc.texts, "prefix": conc.pfx}
					for k, v := range extra {
						m[k] = v
					}
					return m
				}
				// finding class from the *input*: does the tree carry a text YAML reads differently?
				class := "export-import"
				for _, n := range c.Tree {
					for _, p := range append(append([]ePt{}, n.Pts...), n.Epts...) {
						if v, ok := conc.texts[strings.TrimSuffix(p.Txt, " (import)")]; ok && yamlAmbiguous(v) {
							class = "yaml-significant-text"
						}
					}
				}
				srcParent := conc.pfx + "src"
				if err := client.SendNode(ncA, data.NodeEdge{ID: srcParent, Parent: inA.root.ID, Type: "group"}, ""); err != nil {
					res.fail(Failure{Finding: "infra", What: "creating source parent: " + err.Error()})
					return
				}
				// build the tree, parents first
				byID := map[string]eNode{}
				for _, n := range c.Tree {
					byID[n.ID] = n
				}
				var order []string
				var add func(id string)
				done := map[string]bool{}
				add = func(id string) {
					if done[id] {
						return
					}
					if p := byID[id].Parent; p != "" {
						add(p)
					}
					done[id] = true
					order = append(order, id)
				}
				for _, n := range c.Tree {
					add(n.ID)
				}
				// every third tree: the top node is first created below another parent and then moved
				// (the older, deleted placement stays in the store; the export is of the live one)
				moved := job%3 == 1
				topParent := srcParent
				if moved {
					topParent = conc.pfx + "old"
					if err := client.SendNode(ncA, data.NodeEdge{ID: topParent, Parent: inA.root.ID, Type: "group"}, ""); err != nil {
						res.fail(Failure{Finding: "infra", What: "creating the first parent: " + err.Error()})
						return
					}
				}
				for _, id := range order {
					n := byID[id]
					ne := data.NodeEdge{ID: conc.id(n.ID), Type: n.Type, Parent: topParent}
					if n.Parent != "" {
						ne.Parent = conc.id(n.Parent)
					}
					for _, p := range n.Pts {
						ne.Points = append(ne.Points, conc.point(p, conc.id))
					}
					for _, p := range n.Epts {
						ne.EdgePoints = append(ne.EdgePoints, conc.point(p, conc.id))
					}
					if err := client.SendNode(ncA, ne, ""); err != nil {
						res.fail(Failure{Finding: "infra", What: "building the tree: " + err.Error(), Case: caseInfo(nil)})
						return
					}
				}
				if moved {
					top := byID["n1"]
					if err := client.MoveNode(ncA, conc.id("n1"), topParent, srcParent, ""); err != nil {
						res.fail(Failure{Finding: "infra", What: "moving the top node: " + err.Error(), Case: caseInfo(nil)})
						return
					}
					var eps data.Points
					for _, p := range top.Epts {
						eps = append(eps, conc.point(p, conc.id))
					}
					if len(eps) > 0 {
						if err := client.SendEdgePoints(ncA, conc.id("n1"), srcParent, eps, true); err != nil {
							res.fail(Failure{Finding: "infra", What: "edge points of the moved top node: " + err.Error(), Case: caseInfo(nil)})
							return
						}
					}
				}
				yml, err := client.ExportNodes(ncA, conc.id("n1"))
				mu.Lock()
				evals++
				for _, v := range conc.texts {
					textsSeen[v]++
				}
				nontriv[fmt.Sprint(c.Tree)] = true
				mu.Unlock()
				if err != nil {
					res.fail(Failure{Finding: class, What: "ExportNodes failed: " + err.Error(), Case: caseInfo(nil)})
					return
				}
				type variant struct {
					name     string
					nc       *nats.Conn
					rootID   string
					preserve bool
					exp      []eNode
				}
				for vi, v := range []variant{
					{"same instance, new ids", ncA, inA.root.ID, false, c.ImpNew},
					{"other instance, ids preserved", ncB, inB.root.ID, true, c.ImpKeep},
					{"other instance, new ids", ncB, inB.root.ID, false, c.ImpNew},
				} {
					dst := fmt.Sprintf("%sdst%d", conc.pfx, vi)
					if err := client.SendNode(v.nc, data.NodeEdge{ID: dst, Parent: v.rootID, Type: "group"}, ""); err != nil {
						res.fail(Failure{Finding: "infra", What: "creating import parent: " + err.Error()})
						return
					}
					err := client.ImportNodes(v.nc, dst, yml, "", v.preserve)
					mu.Lock()
					imports++
					evals++
					mu.Unlock()
					ci2 := caseInfo(map[string]any{"variant": v.name, "yaml": string(yml)})
					if err != nil {
						res.fail(Failure{Finding: class, What: "ImportNodes failed: " + err.Error(), Case: ci2})
						continue
					}
					var got []data.NodeEdge
					if err := walkAll(v.nc, dst, &got); err != nil {
						res.fail(Failure{Finding: class, What: "walking the imported subtree failed: " + err.Error(), Case: ci2})
						continue
					}
					// match imported nodes to predicted ones through the vname point
					gotByName := map[string]data.NodeEdge{}
					dup := false
					for _, g := range got {
						name, _ := g.Points.Text("vname", "")
						if _, ok := gotByName[name]; ok {
							dup = true
						}
						gotByName[name] = g
					}
					if dup || len(got) != len(v.exp) {
						var names []string
						for _, g := range got {
							n, _ := g.Points.Text("vname", "")
							names = append(names, n)
						}
						sort.Strings(names)
						res.fail(Failure{Finding: class, What: fmt.Sprintf("imported subtree has %d nodes, specification predicts %d (deleted nodes must not be exported)", len(got), len(v.exp)),
							Case: ci2, Expected: c.Live, Observed: names})
						continue
					}
					// id map: predicted id -> real id
					realID := map[string]string{"np": dst}
					bad := ""
					for _, e := range v.exp {
						var name string
						for _, p := range e.Pts {
							if p.Type == "vname" {
								name = p.Txt
							}
						}
						g, ok := gotByName[name]
						if !ok {
							bad = "node " + name + " missing in the imported subtree"
							break
						}
						realID[e.ID] = g.ID
					}
					if bad == "" {
						seen := map[string]bool{}
						for pid, rid := range realID {
							if pid == "np" {
								continue
							}
							if seen[rid] {
								bad = "two nodes were given the same id"
							}
							seen[rid] = true
							if v.preserve && rid != conc.id(pid) {
								bad = "id of " + pid + " not preserved"
							}
							if !v.preserve && strings.HasPrefix(rid, conc.pfx) {
								bad = "id of " + pid + " was not replaced"
							}
						}
					}
					if bad != "" {
						res.fail(Failure{Finding: class, What: bad, Case: ci2})
						continue
					}
					// references to ids outside the tree: consistent replacement = some id that is not the old one
					extReal := map[string]string{}
					idOf := func(pred string) string {
						if r, ok := realID[pred]; ok {
							return r
						}
						if v.preserve {
							return conc.id(pred)
						}
						return "\x00ext:" + pred
					}
					for _, e := range v.exp {
						g := gotByName[func() string {
							for _, p := range e.Pts {
								if p.Type == "vname" {
									return p.Txt
								}
							}
							return ""
						}()]
						if g.Type != e.Type || g.Parent != realID[e.Parent] {
							res.fail(Failure{Finding: class, What: fmt.Sprintf("node %s: type/parent %s/%s, predicted %s/%s", e.ID, g.Type, g.Parent, e.Type, realID[e.Parent]), Case: ci2})
							bad = "x"
							break
						}
						cmp := func(kind string, exp []ePt, gotPts data.Points) string {
							em := map[eKey]data.Point{}
							for _, p := range exp {
								if p.Type == "tombstone" && p.Val == 0 {
									continue
								}
								dp := conc.point(p, idOf)
								k := dp.Key
								if k == "" {
									k = "0"
								}
								em[eKey{dp.Type, k}] = dp
							}
							gm := ptsMap(gotPts, true)
							if len(em) != len(gm) {
								return fmt.Sprintf("%s of %s: %d points, predicted %d", kind, e.ID, len(gm), len(em))
							}
							for k, ep := range em {
								gp, ok := gm[k]
								if !ok {
									return fmt.Sprintf("%s of %s: point (%s,%s) missing", kind, e.ID, k.typ, k.key)
								}
								if strings.HasPrefix(ep.Text, "\x00ext:") {
									old := conc.id(strings.TrimPrefix(ep.Text, "\x00ext:"))
									if gp.Text == old || gp.Text == "" {
										return fmt.Sprintf("%s of %s: reference to an id outside the tree was not replaced", kind, e.ID)
									}
									if prev, ok := extReal[old]; ok && prev != gp.Text {
										return fmt.Sprintf("%s of %s: one outside id replaced by two different ids", kind, e.ID)
									}
									extReal[old] = gp.Text
									ep.Text = gp.Text
								}
								if math.Float64bits(gp.Value) != math.Float64bits(ep.Value) || gp.Text != ep.Text || gp.Tombstone != ep.Tombstone {
									return fmt.Sprintf("%s of %s: point (%s,%s) is value=%v text=%q tombstone=%d, predicted value=%v text=%q tombstone=%d",
										kind, e.ID, k.typ, k.key, gp.Value, gp.Text, gp.Tombstone, ep.Value, ep.Text, ep.Tombstone)
								}
							}
							return ""
						}
						if d := cmp("points", e.Pts, g.Points); d != "" {
							res.fail(Failure{Finding: class, What: d, Case: ci2})
							bad = "x"
							break
						}
						if d := cmp("edge points", e.Epts, g.EdgePoints); d != "" {
							res.fail(Failure{Finding: class, What: d, Case: ci2})
							bad = "x"
							break
						}
					}
				}
				if job%37 == 0 {
					res.sample(map[string]any{"tree": c.Tree, "texts": conc.texts, "predicted_import_new_ids": c.ImpNew}, 5)
				}
			})
			inA.stop(true)
			inB.stop(true)
		}
		res.Evaluations = evals
		res.Traces = imports
		res.DistinctNontrivial = len(nontriv)
		res.Extra["texts_used"] = textsSeen
		return res.write(*out)
	}
}
