package main

import (
	"errors"
	"flag"
	"fmt"
	"strings"
	"sync"
	"sync/atomic"
	"time"

	"github.com/simpleiot/simpleiot/client"
)

// Run/stop groups (Lifecycle.tla, MC_Lifecycle.tla): environment schedules (stop | run | kick:<actor>) are
// replayed on a real client.Group with scripted members; after the last step the outcome - has Run
// returned, with whose error, how often each member was told to stop, did Run return before a member
// had ended - is compared with what the specification predicts.  Every schedule is run with members that
// end at once when told to and with members that take their time.

type grpCase struct {
	Steps []string       `json:"steps"`
	Run   string         `json:"run"`
	Ret   string         `json:"ret"`
	Told  map[string]int `json:"told"`
	Alive int            `json:"alive"`
}

type grpMember struct {
	name   string
	slow   time.Duration
	kick   chan struct{}
	stop   chan struct{}
	told   atomic.Int32
	ended  atomic.Int64 // sequence number at which Run ended (0 = not yet)
	once   sync.Once
	seq    *atomic.Int64
	panics *atomic.Int32
}

func (m *grpMember) Run() error {
	select {
	case <-m.kick:
		m.ended.Store(m.seq.Add(1))
		return errors.New(m.name)
	case <-m.stop:
		time.Sleep(m.slow)
		m.ended.Store(m.seq.Add(1))
		return errors.New(m.name + " (stopped)")
	}
}

func (m *grpMember) Stop(_ error) {
	m.told.Add(1)
	m.once.Do(func() { close(m.stop) })
}

func grpReplay(c grpCase, slow time.Duration) (string, map[string]any) {
	var seq atomic.Int64
	var panics atomic.Int32
	g := client.NewGroup("verif")
	members := map[string]*grpMember{}
	for _, n := range []string{"a1", "a2", "a3"} {
		m := &grpMember{name: n, slow: slow, kick: make(chan struct{}), stop: make(chan struct{}), seq: &seq, panics: &panics}
		members[n] = m
		g.Add(m)
	}
	var ret atomic.Value
	var retSeq atomic.Int64
	guard := func(f func()) {
		defer func() {
			if r := recover(); r != nil {
				panics.Add(1)
			}
		}()
		f()
	}
	for _, st := range c.Steps {
		switch {
		case st == "stop":
			guard(func() { g.Stop(nil) })
		case st == "run":
			go guard(func() {
				err := g.Run()
				retSeq.Store(seq.Add(1))
				if err == nil {
					ret.Store("nil")
				} else {
					ret.Store(err.Error())
				}
			})
		case strings.HasPrefix(st, "kick:"):
			m := members[strings.TrimPrefix(st, "kick:")]
			select {
			case m.kick <- struct{}{}:
			case <-time.After(200 * time.Millisecond): // the member has ended already
			}
		}
		// let the group settle: until Run has returned, or for a while if nothing is expected to happen
		deadline := time.Now().Add(slow*4 + 150*time.Millisecond)
		for time.Now().Before(deadline) {
			if ret.Load() != nil {
				break
			}
			time.Sleep(2 * time.Millisecond)
		}
	}
	obs := map[string]any{}
	run := "idle"
	started := false
	for _, st := range c.Steps {
		if st == "run" {
			started = true
		}
	}
	r, _ := ret.Load().(string)
	if r != "" {
		run = "returned"
	} else if started {
		run = "running"
	}
	told := map[string]int{}
	alive := 0
	early := ""
	for n, m := range members {
		told[n] = int(m.told.Load())
		if started && m.ended.Load() == 0 {
			alive++
		}
		if r != "" && (m.ended.Load() == 0 || m.ended.Load() > retSeq.Load()) {
			early = n
		}
	}
	obs["run"], obs["ret"], obs["told"], obs["alive"], obs["panics"] = run, r, told, alive, panics.Load()
	// release whatever is still blocked
	guard(func() { g.Stop(nil) })
	for _, m := range members {
		m.once.Do(func() { close(m.stop) })
	}
	switch {
	case panics.Load() > 0:
		return "a call on the group panicked", obs
	case run != c.Run:
		return fmt.Sprintf("Run is %s, specification says %s", run, c.Run), obs
	case r != c.Ret:
		return fmt.Sprintf("Run returned %q, specification says %q", r, c.Ret), obs
	case early != "":
		return "Run returned before member " + early + " had ended", obs
	}
	for n, k := range c.Told {
		if told[n] != k {
			return fmt.Sprintf("member %s was told to stop %d times, specification says %d", n, told[n], k), obs
		}
	}
	if c.Run != "running" && started && alive != c.Alive {
		return fmt.Sprintf("%d members still running, specification says %d", alive, c.Alive), obs
	}
	return "", obs
}

func init() {
	commands["group"] = func(args []string) error {
		fs := flag.NewFlagSet("group", flag.ExitOnError)
		casesF := fs.String("cases", "", "")
		out := fs.String("out", "", "")
		fs.Parse(args)
		cs, err := readJSONLines[grpCase](*casesF)
		if err != nil {
			return err
		}
		res := &Result{Extra: map[string]any{}}
		var mu sync.Mutex
		agree := 0
		parallel(len(cs)*2, 8, func(i int) {
			c := cs[i/2]
			slow := time.Duration(0)
			if i%2 == 1 {
				slow = 60 * time.Millisecond
			}
			what, obs := grpReplay(c, slow)
			if what != "" {
				// timing guard: once more, with more time between the steps
				what, obs = grpReplay(c, slow+100*time.Millisecond)
			}
			mu.Lock()
			if what == "" {
				agree++
			}
			mu.Unlock()
			res.sample(map[string]any{"schedule": c, "slow_members": slow > 0, "observed": obs}, 6)
			if what != "" {
				res.fail(Failure{Finding: "C07:group-lifecycle", What: what, Case: map[string]any{"group_schedule": c.Steps, "slow_members": slow > 0},
					Expected: c, Observed: obs})
			}
		})
		res.Evaluations = len(cs) * 2
		res.Traces = len(cs)
		res.DistinctNontrivial = len(cs)
		res.Extra["schedules_agreeing"] = agree
		return res.write(*out)
	}
}
