package main

import (
	"bytes"
	"encoding/binary"
	"flag"
	"fmt"
	"io"
	"log"
	"math"
	"math/rand"
	"runtime"
	"strings"
	"sync"
	"time"

	"github.com/nats-io/nats.go"
	"github.com/simpleiot/simpleiot/client"
	"github.com/simpleiot/simpleiot/data"
)

// C12 / C17: cases printed by TLC from Wire.tla (point patterns, node patterns,
// subjects) are concretised and pushed through the real codecs.

type wireCase struct {
	Kind   string            `json:"kind"`
	P      map[string]string `json:"p"`
	Serial map[string]string `json:"serial"`
	N      *wireNode         `json:"n"`
	S      []string          `json:"s"`
	Hole   bool              `json:"hole"`
}

type wireNode struct {
	Sc         map[string]string   `json:"sc"`
	Points     []map[string]string `json:"points"`
	EdgePoints []map[string]string `json:"edgePoints"`
}

var wireStrB = []string{"Ünï✓ødé τύπος\twith\nnewline", "a.b*c>d", strings.Repeat("x", 300), "\u0000nul", "日本語"}
var wireValB = []float64{math.MaxFloat64, math.SmallestNonzeroFloat64, math.Inf(1), math.Inf(-1), 0.1,
	math.Copysign(0, -1), -(1<<53 - 1), math.Float64frombits(0x7ff8000000000001), 1e-320}
var wireTimeB = []time.Time{
	time.Date(9999, 12, 31, 23, 59, 59, 999999999, time.UTC),
	time.Date(1, 1, 1, 0, 0, 0, 1, time.UTC),
	time.Date(1969, 12, 31, 23, 59, 59, 999999999, time.UTC),
	time.Date(2262, 4, 11, 23, 47, 16, 854775807, time.UTC),
}
var wireTombB = []int{math.MaxInt32, -1, math.MinInt32, 2}

func wirePoint(pat map[string]string, k int, serial bool) data.Point {
	var p data.Point
	pick := func(n int) int { return ((k % n) + n) % n }
	switch pat["type"] {
	case "a":
		p.Type = "temp"
	case "b":
		p.Type = wireStrB[pick(len(wireStrB))]
	}
	switch pat["key"] {
	case "a":
		p.Key = "0"
	case "b":
		p.Key = wireStrB[pick(len(wireStrB))] + "-k"
	}
	switch pat["value"] {
	case "a":
		p.Value = 1.5
	case "b":
		p.Value = wireValB[pick(len(wireValB))]
	}
	switch pat["text"] {
	case "a":
		p.Text = "hello"
	case "b":
		p.Text = wireStrB[pick(len(wireStrB))] + " text"
	}
	switch pat["time"] {
	case "z":
		if serial {
			p.Time = time.Unix(0, 0) // the Go zero time is outside the 64-bit ns range
		}
	case "a":
		p.Time = time.Date(2023, 1, 2, 3, 4, 5, 123456789, time.UTC)
	case "b":
		if serial {
			p.Time = []time.Time{time.Unix(0, math.MaxInt64), time.Unix(0, math.MinInt64), time.Unix(0, -1)}[pick(3)]
		} else {
			p.Time = wireTimeB[pick(len(wireTimeB))]
		}
	}
	switch pat["tombstone"] {
	case "a":
		p.Tombstone = 1
	case "b":
		p.Tombstone = wireTombB[pick(len(wireTombB))]
	}
	switch pat["data"] {
	case "a":
		p.Data = []byte{1, 2, 3}
	case "b":
		p.Data = bytes.Repeat([]byte{0, 255, 7}, 70)
	}
	switch pat["origin"] {
	case "a":
		p.Origin = "user-1"
	case "b":
		p.Origin = "f3b6c1d2-aaaa-bbbb-cccc-0123456789ab"
	}
	return p
}

// pointDiff lists the fields in which two points differ (value by bits, time by instant).
func pointDiff(a, b data.Point) []string {
	var d []string
	if a.Type != b.Type {
		d = append(d, "type")
	}
	if a.Key != b.Key {
		d = append(d, "key")
	}
	if math.Float64bits(a.Value) != math.Float64bits(b.Value) {
		d = append(d, "value")
	}
	if a.Text != b.Text {
		d = append(d, "text")
	}
	if !a.Time.Equal(b.Time) {
		d = append(d, "time")
	}
	if a.Tombstone != b.Tombstone {
		d = append(d, "tombstone")
	}
	if !bytes.Equal(a.Data, b.Data) {
		d = append(d, "data")
	}
	if a.Origin != b.Origin {
		d = append(d, "origin")
	}
	return d
}

func showPoint(p data.Point) map[string]any {
	return map[string]any{"type": p.Type, "key": p.Key, "value_bits": fmt.Sprintf("%016x", math.Float64bits(p.Value)),
		"text": p.Text, "time": p.Time.UTC().Format(time.RFC3339Nano), "tombstone": p.Tombstone, "data": fmt.Sprintf("%x", p.Data), "origin": p.Origin}
}

func pbVarint(n int) []byte {
	var b [10]byte
	k := binary.PutUvarint(b[:], uint64(n))
	return b[:k]
}

// decoders under test for arbitrary bytes; each returns a panic value or nil
type wireDecoder struct {
	name string
	f    func(b []byte)
}

func wireDecoders() []wireDecoder {
	msg := func(subj string, b []byte) *nats.Msg { return &nats.Msg{Subject: subj, Data: b} }
	return []wireDecoder{
		{"PbDecodePoints", func(b []byte) { data.PbDecodePoints(b) }},
		{"PbDecodeNode", func(b []byte) { data.PbDecodeNode(b) }},
		{"PbDecodeNodeRequest", func(b []byte) { data.PbDecodeNodeRequest(b) }},
		{"PbDecodeNodes", func(b []byte) { data.PbDecodeNodes(b) }},
		{"PbDecodeNodesRequest", func(b []byte) { data.PbDecodeNodesRequest(b) }},
		{"PbDecodeSerialPoints", func(b []byte) { data.PbDecodeSerialPoints(b) }},
		{"DecodeSerialHrPayload", func(b []byte) { data.DecodeSerialHrPayload(b, func(data.Point) {}) }},
		{"SerialDecode", func(b []byte) {
			_, _, pl, err := client.SerialDecode(b)
			if err == nil {
				data.PbDecodeSerialPoints(pl)
			}
		}},
		{"DecodeNodePointsMsg", func(b []byte) { client.DecodeNodePointsMsg(msg("p.x", b)) }},
		{"DecodeEdgePointsMsg", func(b []byte) { client.DecodeEdgePointsMsg(msg("p.x.y", b)) }},
		{"DecodeUpNodePointsMsg", func(b []byte) { client.DecodeUpNodePointsMsg(msg("up.r.x", b)) }},
		{"DecodeUpEdgePointsMsg", func(b []byte) { client.DecodeUpEdgePointsMsg(msg("up.r.x.y", b)) }},
	}
}

func tryDecode(d wireDecoder, b []byte) (pan any) {
	defer func() {
		if r := recover(); r != nil {
			pan = r
		}
	}()
	d.f(b)
	return nil
}

func init() {
	commands["c12"] = func(args []string) error {
		fs := flag.NewFlagSet("c12", flag.ExitOnError)
		casesF := fs.String("cases", "", "")
		out := fs.String("out", "", "")
		seed := fs.Int64("seed", 1, "")
		concs := fs.Int("conc", 2, "concretisations per pattern")
		randomN := fs.Int("random", 20000, "random byte strings per decoder")
		fs.Parse(args)
		log.SetOutput(io.Discard)
		cs, err := readJSONLines[wireCase](*casesF)
		if err != nil {
			return err
		}
		res := &Result{Extra: map[string]any{}}
		var mu sync.Mutex
		evals, nontriv := 0, map[string]bool{}
		var corpus [][]byte // valid encodings, damaged below
		addCorpus := func(b []byte) {
			mu.Lock()
			if len(corpus) < 400 && len(b) < 600 {
				corpus = append(corpus, append([]byte(nil), b...))
			}
			mu.Unlock()
		}
		failPoint := func(where string, pat any, orig, got data.Point) {
			d := pointDiff(orig, got)
			cls := "point-" + strings.Join(d, "+")
			res.fail(Failure{Finding: cls, What: where + ": fields lost or changed on the wire: " + strings.Join(d, ","),
				Case: map[string]any{"pattern": pat, "point": showPoint(orig)}, Expected: showPoint(orig), Observed: showPoint(got)})
		}
		parallel(len(cs), runtime.NumCPU(), func(i int) {
			c := cs[i]
			switch c.Kind {
			case "point":
				for k := 0; k < *concs; k++ {
					p := wirePoint(c.P, int(*seed)*13+i*7+k, false)
					pts := data.Points{p}
					b, err := pts.ToPb()
					mu.Lock()
					evals++
					nontriv[fmt.Sprint(c.P)] = true
					mu.Unlock()
					if err != nil {
						res.fail(Failure{Finding: "encode-error", What: "Points.ToPb failed: " + err.Error(), Case: showPoint(p)})
						continue
					}
					addCorpus(b)
					got, err := data.PbDecodePoints(b)
					if err != nil || len(got) != 1 {
						res.fail(Failure{Finding: "decode-error", What: fmt.Sprintf("PbDecodePoints: %v (%d points)", err, len(got)), Case: showPoint(p)})
						continue
					}
					if d := pointDiff(p, got[0]); len(d) > 0 {
						failPoint("PbDecodePoints(Points.ToPb)", c.P, p, got[0])
					}
					if i%811 == 0 && k == 0 {
						res.sample(map[string]any{"pattern": c.P, "point": showPoint(p), "wire_bytes": len(b)}, 6)
					}
				}
			case "node":
				for k := 0; k < *concs; k++ {
					sc := func(f, a, b string) string {
						switch c.N.Sc[f] {
						case "a":
							return a
						case "b":
							return b
						}
						return ""
					}
					n := data.NodeEdge{ID: sc("id", "node-1", wireStrB[0]), Type: sc("type", "device", wireStrB[1]), Parent: sc("parent", "root", wireStrB[4])}
					switch c.N.Sc["hash"] {
					case "a":
						n.Hash = 0xdeadbeef
					case "b":
						n.Hash = 0xffffffff
					}
					for j, pp := range c.N.Points {
						n.Points = append(n.Points, wirePoint(pp, i+j+k, false))
					}
					for j, pp := range c.N.EdgePoints {
						n.EdgePoints = append(n.EdgePoints, wirePoint(pp, i+j+k+3, false))
					}
					cmp := func(where string, got data.NodeEdge) {
						if got.ID != n.ID || got.Type != n.Type || got.Parent != n.Parent || got.Hash != n.Hash ||
							len(got.Points) != len(n.Points) || len(got.EdgePoints) != len(n.EdgePoints) {
							res.fail(Failure{Finding: "node-scalars", What: where + ": node id/type/parent/hash or list lengths changed",
								Case: map[string]any{"pattern": c.N}, Expected: fmt.Sprint(n.ID, n.Type, n.Parent, n.Hash, len(n.Points), len(n.EdgePoints)),
								Observed: fmt.Sprint(got.ID, got.Type, got.Parent, got.Hash, len(got.Points), len(got.EdgePoints))})
							return
						}
						for j := range n.Points {
							if d := pointDiff(n.Points[j], got.Points[j]); len(d) > 0 {
								failPoint(where+" points", c.N, n.Points[j], got.Points[j])
							}
						}
						for j := range n.EdgePoints {
							if d := pointDiff(n.EdgePoints[j], got.EdgePoints[j]); len(d) > 0 {
								failPoint(where+" edgePoints", c.N, n.EdgePoints[j], got.EdgePoints[j])
							}
						}
					}
					mu.Lock()
					evals += 4
					nontriv[fmt.Sprint(*c.N)] = true
					mu.Unlock()
					b, err := n.ToPb()
					if err != nil {
						res.fail(Failure{Finding: "encode-error", What: "NodeEdge.ToPb: " + err.Error(), Case: c.N})
						continue
					}
					addCorpus(b)
					if got, err := data.PbDecodeNode(b); err != nil {
						res.fail(Failure{Finding: "decode-error", What: "PbDecodeNode: " + err.Error(), Case: c.N})
					} else {
						cmp("PbDecodeNode", got)
					}
					// NodeRequest{node=1, error=2}: wire-compatible hand framing
					req := append([]byte{0x0a}, append(pbVarint(len(b)), b...)...)
					if got, err := data.PbDecodeNodeRequest(req); err != nil {
						res.fail(Failure{Finding: "decode-error", What: "PbDecodeNodeRequest: " + err.Error(), Case: c.N})
					} else {
						cmp("PbDecodeNodeRequest", got)
					}
					nodes := []data.NodeEdge{n, n}
					var nb []byte
					for _, x := range nodes {
						xb, _ := x.ToPb()
						nb = append(nb, 0x0a)
						nb = append(nb, pbVarint(len(xb))...)
						nb = append(nb, xb...)
					}
					if got, err := data.PbDecodeNodes(nb); err != nil || len(got) != 2 {
						res.fail(Failure{Finding: "decode-error", What: fmt.Sprintf("PbDecodeNodes: %v", err), Case: c.N})
					} else {
						cmp("PbDecodeNodes", got[1])
					}
					if got, err := data.PbDecodeNodesRequest(nb); err != nil || len(got) != 2 {
						res.fail(Failure{Finding: "decode-error", What: fmt.Sprintf("PbDecodeNodesRequest: %v", err), Case: c.N})
					} else {
						cmp("PbDecodeNodesRequest", got[0])
					}
					// error replies
					for _, et := range []string{"some error", data.ErrDocumentNotFound.Error()} {
						eb := append(append([]byte(nil), nb...), 0x12)
						eb = append(eb, pbVarint(len(et))...)
						eb = append(eb, et...)
						if _, err := data.PbDecodeNodesRequest(eb); err == nil || err.Error() != et {
							res.fail(Failure{Finding: "error-field", What: "NodesRequest error text not reported", Case: et, Observed: fmt.Sprint(err)})
						}
					}
				}
			}
		})
		res.Traces = len(cs)

		// guard tables: high-rate payload and subject parsers
		hr := func(n int, start uint64) []byte {
			b := make([]byte, n)
			copy(b, "temp")
			if n > 16 {
				copy(b[16:], "k")
			}
			if n >= 44 {
				binary.LittleEndian.PutUint64(b[32:], start)
				binary.LittleEndian.PutUint32(b[40:], 1000)
			}
			for i := 44; i+4 <= n; i += 4 {
				binary.LittleEndian.PutUint32(b[i:], math.Float32bits(float32(i)))
			}
			return b
		}
		for _, n := range []int{0, 1, 43, 44, 47, 48, 49, 51, 52, 100, 101} {
			for _, st := range []uint64{0, 1700000000000000000} {
				cnt := 0
				var first data.Point
				var err error
				var pan any
				func() {
					defer func() { pan = recover() }()
					err = data.DecodeSerialHrPayload(hr(n, st), func(p data.Point) {
						if cnt == 0 {
							first = p
						}
						cnt++
					})
				}()
				evals++
				if pan != nil {
					res.fail(Failure{Finding: "hr-payload", What: fmt.Sprintf("DecodeSerialHrPayload panicked: %v", pan), Case: map[string]any{"len": n, "start": st}})
					continue
				}
				wantErr := n < 48
				wantCnt := 0
				if n >= 48 {
					wantCnt = (n - 44) / 4
				}
				if (err != nil) != wantErr || cnt != wantCnt || (cnt > 0 && (first.Type != "temp" || first.Key != "k" || (st != 0 && first.Time.UnixNano() != int64(st)))) {
					res.fail(Failure{Finding: "hr-payload", What: "DecodeSerialHrPayload guard table", Case: map[string]any{"len": n, "start": st},
						Expected: map[string]any{"err": wantErr, "samples": wantCnt}, Observed: map[string]any{"err": fmt.Sprint(err), "samples": cnt}})
				}
			}
		}
		valid, _ := (&data.Points{{Type: "t", Value: 1}}).ToPb()
		for _, subj := range []string{"", "p", "p.", "p.a", "p.a.b", "p..", "up.a", "up.a.b", "up.a.b.c", "up...", "a.b.c.d.e"} {
			chunks := len(strings.Split(subj, "."))
			m := &nats.Msg{Subject: subj, Data: valid}
			type pr struct {
				name string
				min  int
				f    func() error
			}
			for _, x := range []pr{
				{"DecodeNodePointsMsg", 2, func() error { _, _, e := client.DecodeNodePointsMsg(m); return e }},
				{"DecodeEdgePointsMsg", 3, func() error { _, _, _, e := client.DecodeEdgePointsMsg(m); return e }},
				{"DecodeUpNodePointsMsg", 3, func() error { _, _, _, e := client.DecodeUpNodePointsMsg(m); return e }},
				{"DecodeUpEdgePointsMsg", 4, func() error { _, _, _, _, e := client.DecodeUpEdgePointsMsg(m); return e }},
			} {
				var e error
				var pan any
				func() {
					defer func() { pan = recover() }()
					e = x.f()
				}()
				evals++
				if pan != nil || (e != nil) != (chunks < x.min) {
					res.fail(Failure{Finding: "subject-parser", What: x.name + " guard table", Case: subj, Observed: fmt.Sprint(e, pan)})
				}
			}
		}

		// ---- arbitrary bytes: damage kinds applied at every offset of valid encodings + random strings
		decs := wireDecoders()
		rng := rand.New(rand.NewSource(*seed))
		var inputs [][]byte
		inputs = append(inputs, nil, []byte{}, []byte{0}, []byte{0x0a}, []byte{0x0a, 0x00}, []byte{0x12, 0x00}, []byte{0x0a, 0x02, 0x0a, 0x00})
		if len(corpus) > 60 {
			rng.Shuffle(len(corpus), func(i, j int) { corpus[i], corpus[j] = corpus[j], corpus[i] })
			corpus = corpus[:60]
		}
		// serial packets and hr payloads join the corpus
		sp, _ := client.SerialEncode(3, "p.a", data.Points{{Type: "t", Key: "k", Value: 2, Text: "x", Time: time.Unix(1, 2), Origin: "o"}})
		corpus = append(corpus, sp, hr(52, 5), hr(48, 0))
		for _, v := range corpus {
			for off := 0; off <= len(v); off++ {
				inputs = append(inputs, v[:off]) // Truncate
				if off < len(v) {
					fl := append([]byte(nil), v...)
					fl[off] ^= 1 << uint(rng.Intn(8)) // FlipBit
					inputs = append(inputs, fl)
					ins := append(append(append([]byte(nil), v[:off]...), byte(rng.Intn(256))), v[off:]...) // Insert
					inputs = append(inputs, ins)
				}
			}
		}
		for i := 0; i < *randomN; i++ {
			b := make([]byte, rng.Intn(80))
			rng.Read(b)
			inputs = append(inputs, b)
		}
		var dmu sync.Mutex
		dEvals := 0
		parallel(len(inputs), runtime.NumCPU(), func(i int) {
			for _, d := range decs {
				if pan := tryDecode(d, inputs[i]); pan != nil {
					res.fail(Failure{Finding: "panic-" + d.name, What: fmt.Sprintf("%s panicked on arbitrary bytes: %v", d.name, pan),
						Case: fmt.Sprintf("%x", inputs[i])})
				}
			}
			dmu.Lock()
			dEvals += len(decs)
			dmu.Unlock()
		})
		res.Extra["decoder_inputs"] = len(inputs)
		res.Extra["decoder_calls"] = dEvals
		res.Evaluations = evals + dEvals
		res.DistinctNontrivial = len(nontriv)
		return res.write(*out)
	}
}
