// vh is the Go side of the /verif machinery: one sub-command per property
// family.  Every sub-command reads what TLC generated (or records a trace for
// TLC to validate), drives the real simpleiot code, and writes a JSON result.
package main

import (
	"fmt"
	"os"
)

var commands = map[string]func(args []string) error{}

func main() {
	if len(os.Args) < 2 {
		fmt.Fprintln(os.Stderr, "usage: vh <command> [flags]")
		os.Exit(2)
	}
	f, ok := commands[os.Args[1]]
	if !ok {
		fmt.Fprintln(os.Stderr, "unknown command", os.Args[1])
		os.Exit(2)
	}
	if err := f(os.Args[2:]); err != nil {
		fmt.Fprintln(os.Stderr, "vh:", err)
		os.Exit(2)
	}
}
