package main

import (
	"flag"
	"fmt"
	"runtime"
	"sync"
	"time"

	"github.com/simpleiot/simpleiot/client"
)

// C14: replay the oracle table printed by TLC (Schedule.tla, Active) against
// the real schedule.activeForTime.

type c14Case struct {
	Sm    int    `json:"sm"`
	Em    int    `json:"em"`
	Wds   []int  `json:"wds"`
	Dates []int  `json:"dates"`
	W0    int    `json:"w0"`
	Ts    []int  `json:"ts"`
	Exp   []bool `json:"exp"`
}

type c14Anchor struct {
	Name string
	Day0 time.Time
}

// anchors returns calendar dates for "day 0" that have weekday w0 and put the
// examined days 1..3 across a week end, a month end, a year end and the end of
// February in a leap and a non-leap year.
func c14Anchors(w0 int, all bool) []c14Anchor {
	find := func(name string, month time.Month, day int, leap *bool) c14Anchor {
		for y := 2001; y < 2200; y++ {
			isLeap := y%4 == 0 && (y%100 != 0 || y%400 == 0)
			if leap != nil && *leap != isLeap {
				continue
			}
			d := time.Date(y, month, day, 0, 0, 0, 0, time.UTC)
			if int(d.Weekday()) == w0 {
				return c14Anchor{name, d}
			}
		}
		panic("no anchor")
	}
	yes, no := true, false
	ret := []c14Anchor{
		find("mid-month", time.June, 10, nil),
		find("year-end", time.December, 29, nil),
		find("leap-feb", time.February, 27, &yes),
	}
	if all {
		ret = append(ret,
			find("nonleap-feb", time.February, 26, &no),
			find("month-end-30", time.April, 28, nil),
			find("century-nonleap-feb", time.February, 26, &no),
		)
		// 2100 is not a leap year: Feb 26 2100 + 3 days = Mar 1
		d := time.Date(2100, time.February, 26, 0, 0, 0, 0, time.UTC)
		if int(d.Weekday()) == w0 {
			ret = append(ret, c14Anchor{"2100-feb", d})
		}
	}
	return ret
}

var c14Zones = []*time.Location{
	time.UTC,
	time.FixedZone("p14", 14*3600),
	time.FixedZone("m12", -12*3600),
	time.FixedZone("p0545", 5*3600+45*60),
}

// c14ListForm: 0 as given, 1 reversed, 2 every entry twice, 3 reversed with every entry twice
func c14ListForm[T any](l []T, form int) []T {
	var ret []T
	for i := range l {
		x := l[i]
		if form%2 == 1 {
			x = l[len(l)-1-i]
		}
		ret = append(ret, x)
		if form >= 2 {
			ret = append(ret, x)
		}
	}
	return ret
}

func init() {
	commands["c14"] = func(args []string) error {
		fs := flag.NewFlagSet("c14", flag.ExitOnError)
		cases := fs.String("cases", "", "JSON lines from Gen_Schedule")
		out := fs.String("out", "", "result file")
		allAnchors := fs.Bool("all-anchors", false, "")
		fs.Parse(args)
		cs, err := readJSONLines[c14Case](*cases)
		if err != nil {
			return err
		}
		res := &Result{Extra: map[string]any{}}
		var mu sync.Mutex
		evals, nontriv := 0, 0
		parallel(len(cs), runtime.NumCPU(), func(i int) {
			c := cs[i]
			start := fmt.Sprintf("%02d:%02d", c.Sm/60, c.Sm%60)
			end := fmt.Sprintf("%02d:%02d", c.Em/60, c.Em%60)
			var wds []time.Weekday
			for _, w := range c.Wds {
				wds = append(wds, time.Weekday(w))
			}
			myEvals, myNon := 0, 0
			for _, a := range c14Anchors(c.W0, *allAnchors) {
				var dates0 []string
				for _, d := range c.Dates {
					dates0 = append(dates0, a.Day0.AddDate(0, 0, d).Format("2006-01-02"))
				}
				// the filters are lists: the same set in another order or with an entry twice means the same
				forms := 1
				if len(dates0)+len(wds) > 0 {
					forms = 4
				}
				for form := 0; form < forms; form++ {
					dates, wds := c14ListForm(dates0, form), c14ListForm(wds, form)
					for k, ts := range c.Ts {
						t := a.Day0.Add(time.Duration(ts) * time.Second)
						if k > 0 && c.Exp[k] != c.Exp[k-1] {
							myNon++
						}
						for _, z := range c14Zones {
							got, err := client.VerifScheduleActive(start, end, wds, dates, t.In(z))
							myEvals++
							if err != nil || got != c.Exp[k] {
								res.fail(Failure{
									What: "schedule.activeForTime disagrees with Schedule!Active",
									Case: map[string]any{"start": start, "end": end, "weekdays": c.Wds,
										"dates": dates, "t": t.In(z).Format(time.RFC3339), "anchor": a.Name,
										"model": map[string]any{"sm": c.Sm, "em": c.Em, "wds": c.Wds, "dates": c.Dates, "w0": c.W0, "t": ts}},
									Expected: c.Exp[k], Observed: fmt.Sprint(got, " err=", err),
								})
							}
						}
					}
				}
				dates := dates0
				if i%997 == 0 && a.Name == "year-end" {
					res.sample(map[string]any{"start": start, "end": end, "weekdays": c.Wds, "dates": dates,
						"day0": a.Day0.Format("2006-01-02 Mon"), "instants_s": c.Ts, "predicted_active": c.Exp,
						"note": "every instant evaluated in 4 time zones; all agreed with the prediction unless listed in failures"}, 6)
				}
			}
			mu.Lock()
			evals += myEvals
			nontriv += myNon
			mu.Unlock()
		})
		res.Evaluations = evals
		res.DistinctNontrivial = nontriv
		res.Traces = len(cs)
		return res.write(*out)
	}
}
