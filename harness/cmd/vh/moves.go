package main

import (
	"flag"
	"fmt"
	"os"
	"sort"
	"strings"
	"time"

	"github.com/simpleiot/simpleiot/client"
	"github.com/simpleiot/simpleiot/data"
)

// Composite client operations (Store!Move / Store!Mirror): client.MoveNode and client.MirrorNode
// from every start shape.  C05: an operation that is answered with an error leaves everything
// observable unchanged (dump of points, edges and hashes; nothing on up.>); an accepted one
// produces the predicted placements and consistent hashes.

type moveCase struct {
	Shape []sStep `json:"shape"`
	Op    struct {
		K   string `json:"k"`
		N   string `json:"n"`
		Old string `json:"old"`
		New string `json:"new"`
	} `json:"op"`
	Reply string `json:"reply"`
	Edges []struct {
		Up      string `json:"up"`
		Down    string `json:"down"`
		Deleted bool   `json:"deleted"`
	} `json:"edges"`
	Copies [][]string `json:"copies"` // duplicate: the downward paths of the subtree, one new node each
}

// dupCanon: a node with what it holds and the copies below it, in a canonical text form
func dupCanon(pts []string, kids []string) string {
	sort.Strings(pts)
	sort.Strings(kids)
	return "{" + strings.Join(pts, ";") + " [" + strings.Join(kids, ",") + "]}"
}

func dupPointRepr(ps data.Points, skipDesc bool) []string {
	var r []string
	for _, p := range ps {
		if p.Type == data.PointTypeTombstone || p.Type == data.PointTypeNodeType || (skipDesc && p.Type == data.PointTypeDescription) {
			continue
		}
		r = append(r, fmt.Sprintf("%s|%s|%d|%v|%s|%d", p.Type, p.Key, p.Time.UnixNano(), p.Value, p.Text, p.Tombstone))
	}
	return r
}

// duplicate: client.DuplicateNode against Store!DupCopies.  Returns "" or what differs; diverged = the call
// did not return within the bound
func dupCase(s *storeSession, conc *sConc, c moveCase, nodes []string) (what string, diverged bool) {
	known := map[string]bool{s.in.root.ID: true}
	for i, n := range nodes {
		known[conc.id(n)] = true
		if n != "R" {
			// something to tell the nodes apart by
			client.SendNodePoint(s.nc, conc.id(n), data.Point{Type: conc.prefix + "mark", Key: "0", Time: time.Now(), Value: float64(i + 1), Text: n}, true)
		}
	}
	newID := conc.id(c.Op.New)
	if c.Op.New == "R" {
		newID = s.in.root.ID
	}
	if pre, err := client.GetNodes(s.nc, newID, "all", "", true); err == nil {
		for _, ne := range pre {
			known[ne.ID] = true
		}
	}
	done := make(chan error, 1)
	go func() { done <- client.DuplicateNode(s.nc, conc.id(c.Op.N), newID, "driver") }()
	var err error
	select {
	case err = <-done:
	case <-time.After(3 * time.Second):
		return "", true
	}
	if c.Reply == "diverges" {
		return "the call returned (" + fmt.Sprint(err) + "), the as-coded model says it never does", false
	}
	if (err != nil) != (c.Reply == "err") {
		return fmt.Sprintf("DuplicateNode returned %v, specification says reply %q", err, c.Reply), false
	}
	if err != nil {
		return "", false
	}
	// what the specification says the copy is
	var expect func(path []string) string
	expect = func(path []string) string {
		var kids []string
		for _, q := range c.Copies {
			if len(q) == len(path)+1 && strings.Join(q[:len(path)], "/") == strings.Join(path, "/") {
				kids = append(kids, expect(q))
			}
		}
		orig, _ := client.GetNodes(s.nc, "all", conc.id(path[len(path)-1]), "", true)
		var pts []string
		if len(orig) > 0 {
			pts = dupPointRepr(orig[0].Points, len(path) == 1)
		}
		if len(path) > 1 {
			// the edge points of the placement the walk came through
			up, _ := client.GetNodes(s.nc, conc.id(path[len(path)-2]), conc.id(path[len(path)-1]), "", false)
			if len(up) > 0 {
				pts = append(pts, dupPointRepr(up[0].EdgePoints, false)...)
			}
		}
		return dupCanon(pts, kids)
	}
	var observe func(ne data.NodeEdge, top bool) string
	observe = func(ne data.NodeEdge, top bool) string {
		ch, _ := client.GetNodes(s.nc, ne.ID, "all", "", false)
		var kids []string
		for _, k := range ch {
			kids = append(kids, observe(k, false))
		}
		pts := dupPointRepr(ne.Points, top)
		if !top {
			pts = append(pts, dupPointRepr(ne.EdgePoints, false)...)
		}
		return dupCanon(pts, kids)
	}
	below, _ := client.GetNodes(s.nc, newID, "all", "", false)
	var tops []data.NodeEdge
	for _, ne := range below {
		if !known[ne.ID] {
			tops = append(tops, ne)
		}
	}
	if len(tops) != 1 {
		return fmt.Sprintf("%d new nodes below the new parent, expected one copy", len(tops)), false
	}
	if d, _ := tops[0].Points.Text(data.PointTypeDescription, "0"); !strings.HasSuffix(d, " (Duplicate)") {
		return fmt.Sprintf("the copy's description is %q, expected the duplicate marker", d), false
	}
	if want, got := expect([]string{c.Op.N}), observe(tops[0], true); want != got {
		return "the copy differs from the subtree: copy " + got + ", subtree " + want, false
	}
	hashFailTap.take()
	if err := client.AdminStoreVerify(s.nc); err != nil {
		return "store verification failed: " + err.Error(), false
	}
	time.Sleep(50 * time.Millisecond)
	if found := hashFailTap.take(); len(found) > 0 {
		return fmt.Sprintf("store verification after the duplicate reports %v", found[:1]), false
	}
	return "", false
}

func init() {
	commands["moves"] = func(args []string) error {
		fs := flag.NewFlagSet("moves", flag.ExitOnError)
		casesF := fs.String("cases", "", "")
		out := fs.String("out", "", "")
		seed := fs.Int("seed", 1, "")
		fs.Parse(args)
		quietLogs()
		cases, err := readJSONLines[moveCase](*casesF)
		if err != nil {
			return err
		}
		res := &Result{Extra: map[string]any{}}
		s, err := newStoreSession()
		if err != nil {
			return err
		}
		defer func() { s.close() }()
		nodes := []string{"A", "B", "C", "R"}
		base := time.Now().Add(-time.Hour).Truncate(time.Second)
		evals := 0
		dupTotal, dupAgree, dupDiverged := 0, 0, 0
		for i, c := range cases {
			if s.dead {
				break
			}
			if s.n >= 120 {
				s.close()
				if s, err = newStoreSession(); err != nil {
					return err
				}
			}
			s.n++
			conc := &sConc{prefix: fmt.Sprintf("m%d-%d-", *seed, i), rootID: s.in.root.ID, base: base, seed: *seed + i}
			if fails, _ := s.replay(c.Shape, conc, nodes, false); len(fails) > 0 || s.dead {
				res.Extra[fmt.Sprintf("shape_not_built_%d", i)] = fmt.Sprint(fails)
				continue
			}
			fail := func(cls, what string, detail any) {
				res.fail(Failure{Finding: "C05:" + cls, What: what, Case: map[string]any{"case": i, "op": c.Op, "prefix": conc.prefix, "detail": detail}})
			}
			dump := func() map[string]string {
				m := map[string]string{}
				for _, n := range nodes {
					ns, _ := client.GetNodes(s.nc, "all", conc.id(n), "", true)
					for _, ne := range ns {
						var ps []string
						for _, p := range append(append(data.Points{}, ne.Points...), ne.EdgePoints...) {
							if n == "R" && !strings.HasPrefix(p.Type, conc.prefix) {
								continue
							}
							ps = append(ps, fmt.Sprintf("%s|%s|%d|%v|%s", p.Type, p.Key, p.Time.UnixNano(), p.Value, p.Text))
						}
						sort.Strings(ps)
						h := fmt.Sprint(ne.Hash)
						if n == "R" {
							h = "" // the root's hash covers the other behaviours of this instance as well
						}
						m[ne.Parent+">"+ne.ID] = h + " " + strings.Join(ps, ";")
					}
				}
				return m
			}
			if c.Op.K == "dup" {
				what, diverged := dupCase(s, conc, c, nodes)
				evals++
				dupTotal++
				if diverged {
					// the instance is being flooded with copies: leave it
					s.dead = true
					s.close()
					if s, err = newStoreSession(); err != nil {
						return err
					}
					if c.Reply == "diverges" {
						dupDiverged++
					} else {
						what = "DuplicateNode did not return within 3 s"
					}
				}
				if what == "" {
					dupAgree++
				} else {
					res.fail(Failure{Finding: "dup:duplicate-node", What: what, Case: map[string]any{"case": i, "op": c.Op, "prefix": conc.prefix}})
				}
				continue
			}
			before := dump()
			s.doFence("ep")
			s.drain()
			var opErr error
			if c.Op.K == "move" {
				opErr = client.MoveNode(s.nc, conc.id(c.Op.N), conc.id(c.Op.Old), conc.id(c.Op.New), "driver")
			} else {
				opErr = client.MirrorNode(s.nc, conc.id(c.Op.N), conc.id(c.Op.New), "driver")
			}
			s.doFence("ep")
			var pubs []string
			for _, m := range s.drain() {
				if strings.Contains(m.Subject, conc.prefix) {
					pubs = append(pubs, m.Subject)
				}
			}
			evals++
			after := dump()
			if (opErr != nil) != (c.Reply == "err") {
				if c.Reply == "err" {
					fail("composite-accepted", fmt.Sprintf("%s of %s (old parent %s, new parent %s) succeeded, the specification refuses it", c.Op.K, c.Op.N, c.Op.Old, c.Op.New), nil)
				} else {
					fail("composite-refused", fmt.Sprintf("%s of %s (old parent %s, new parent %s) failed: %v; the specification accepts it", c.Op.K, c.Op.N, c.Op.Old, c.Op.New, opErr), nil)
				}
				continue
			}
			if opErr != nil {
				// answered with an error: no trace
				if !mapsEqual(before, after) {
					var diff []string
					for k, v := range after {
						if before[k] != v {
							diff = append(diff, k)
						}
					}
					for k := range before {
						if _, ok := after[k]; !ok {
							diff = append(diff, k+" (gone)")
						}
					}
					sort.Strings(diff)
					fail("refused-composite-leaves-trace", fmt.Sprintf("%s of %s (old parent %s, new parent %s) was answered with an error (%v) but changed the store", c.Op.K, c.Op.N, c.Op.Old, c.Op.New, opErr), diff)
				} else if len(pubs) > 0 {
					fail("refused-composite-leaves-trace", fmt.Sprintf("%s of %s was answered with an error but something was rebroadcast", c.Op.K, c.Op.N), pubs)
				}
				continue
			}
			// accepted: the predicted placements, hashes in step with the content
			want := map[string]bool{}
			for _, e := range c.Edges {
				up := "root"
				if e.Up != "root" {
					up = conc.id(e.Up)
				}
				want[up+">"+conc.id(e.Down)] = e.Deleted
			}
			got := map[string]bool{}
			for _, n := range nodes {
				ns, _ := client.GetNodes(s.nc, "all", conc.id(n), "", true)
				for _, ne := range ns {
					del, _ := ne.IsTombstone()
					got[ne.Parent+">"+ne.ID] = del
				}
			}
			if fmt.Sprint(want) != fmt.Sprint(got) {
				fail("composite-result", fmt.Sprintf("after %s of %s (old parent %s, new parent %s) the placements differ from the specification", c.Op.K, c.Op.N, c.Op.Old, c.Op.New),
					map[string]any{"store (placement -> deleted)": got, "specification": want})
				continue
			}
			if bad := recomputeAll(s, conc, nodes); bad != "" {
				fail("composite-hash", "after "+c.Op.K+": "+bad, nil)
			}
		}
		// ---- the root stays protected over a restart, also when the root was replaced at run time (an
		// edge <new node> -> "root", which is what an import at "root" sends)
		if cls, what := rerootRestart(); what != "" {
			if cls == "infra" {
				res.Extra["reroot_experiment_not_run"] = what
			} else {
				res.fail(Failure{Finding: "C05:" + cls, What: what})
			}
		}
		evals++
		res.Extra["duplicate_cases"] = dupTotal
		res.Extra["duplicate_cases_agreeing"] = dupAgree
		res.Extra["duplicate_cases_that_never_return_as_modelled"] = dupDiverged
		res.Evaluations = evals
		res.Traces = len(cases)
		res.DistinctNontrivial = len(cases)
		return res.write(*out)
	}
}

func rerootRestart() (string, string) {
	dir, err := os.MkdirTemp("", "verif-reroot-")
	if err != nil {
		return "infra", err.Error()
	}
	defer os.RemoveAll(dir)
	in, err := startInstance(instOpts{dir: dir, id: "reroot-old"})
	if err != nil {
		return "infra", err.Error()
	}
	nc, err := in.connect()
	if err != nil {
		in.stop(false)
		return "infra", err.Error()
	}
	newRoot := "reroot-new"
	err = client.SendEdgePoints(nc, newRoot, "root", data.Points{
		{Type: data.PointTypeTombstone, Value: 0}, {Type: data.PointTypeNodeType, Text: data.NodeTypeDevice}}, true)
	if err != nil {
		nc.Close()
		in.stop(false)
		return "infra", "the store refuses a new root edge: " + err.Error()
	}
	rs, err := client.GetNodes(nc, "root", "all", "", false)
	// the new root (it is what the store file names as the root from now on) is protected at once, not only
	// after the next start
	delErr := client.SendEdgePoint(nc, newRoot, "root", data.Point{Type: data.PointTypeTombstone, Value: 1}, true)
	rs2, err2 := client.GetNodes(nc, "root", "all", "", false)
	nc.Close()
	in.stop(false)
	if delErr == nil {
		// (the store file now names a deleted node as its root; starting an instance on it is not tried here -
		// the start-up code ends the process when it finds no root)
		return "root-tombstone-accepted", fmt.Sprintf("a tombstone aimed at the node that an acknowledged write has made the instance's root is accepted (the instance then reports root %v, %v)", rs2, err2)
	}
	if err != nil || len(rs) != 1 || rs[0].ID != newRoot {
		return "infra", fmt.Sprintf("after the new root edge the instance reports root %v (%v)", rs, err)
	}
	if err2 != nil || len(rs2) != 1 || rs2[0].ID != newRoot {
		return "root-tombstone-accepted", fmt.Sprintf("a refused tombstone aimed at the replaced root left a trace: the instance reports root %v (%v)", rs2, err2)
	}
	in2, err := startInstance(instOpts{dir: dir, id: "reroot-old"})
	if err != nil {
		return "root-lost-over-restart", "after the root was replaced at run time the instance does not start on its store file any more: " + err.Error()
	}
	defer in2.stop(true)
	if in2.root.ID != newRoot {
		return "root-lost-over-restart", fmt.Sprintf("the root was replaced at run time by %q (acknowledged); after a restart the instance's root is %q again", newRoot, in2.root.ID)
	}
	nc2, err := in2.connect()
	if err != nil {
		return "infra", err.Error()
	}
	defer nc2.Close()
	if err := client.SendEdgePoint(nc2, newRoot, "root", data.Point{Type: data.PointTypeTombstone, Value: 1}, true); err == nil {
		return "root-lost-over-restart", "after a restart a tombstone aimed at the instance's root is accepted"
	}
	return "", ""
}
