package main

import (
	"flag"
	"fmt"
	"os"
	"sort"
	"strings"
	"time"

	"github.com/simpleiot/simpleiot/client"
	"github.com/simpleiot/simpleiot/data"
)

// Composite client operations (Store!Move / Store!Mirror): client.MoveNode and client.MirrorNode
// from every start shape.  C05: an operation that is answered with an error leaves everything
// observable unchanged (dump of points, edges and hashes; nothing on up.>); an accepted one
// produces the predicted placements and consistent hashes.

type moveCase struct {
	Shape []sStep `json:"shape"`
	Op    struct {
		K   string `json:"k"`
		N   string `json:"n"`
		Old string `json:"old"`
		New string `json:"new"`
	} `json:"op"`
	Reply string `json:"reply"`
	Edges []struct {
		Up      string `json:"up"`
		Down    string `json:"down"`
		Deleted bool   `json:"deleted"`
	} `json:"edges"`
}

func init() {
	commands["moves"] = func(args []string) error {
		fs := flag.NewFlagSet("moves", flag.ExitOnError)
		casesF := fs.String("cases", "", "")
		out := fs.String("out", "", "")
		seed := fs.Int("seed", 1, "")
		fs.Parse(args)
		quietLogs()
		cases, err := readJSONLines[moveCase](*casesF)
		if err != nil {
			return err
		}
		res := &Result{Extra: map[string]any{}}
		s, err := newStoreSession()
		if err != nil {
			return err
		}
		defer func() { s.close() }()
		nodes := []string{"A", "B", "C", "R"}
		base := time.Now().Add(-time.Hour).Truncate(time.Second)
		evals := 0
		for i, c := range cases {
			if s.dead {
				break
			}
			if s.n >= 120 {
				s.close()
				if s, err = newStoreSession(); err != nil {
					return err
				}
			}
			s.n++
			conc := &sConc{prefix: fmt.Sprintf("m%d-%d-", *seed, i), rootID: s.in.root.ID, base: base, seed: *seed + i}
			if fails, _ := s.replay(c.Shape, conc, nodes, false); len(fails) > 0 || s.dead {
				res.Extra[fmt.Sprintf("shape_not_built_%d", i)] = fmt.Sprint(fails)
				continue
			}
			fail := func(cls, what string, detail any) {
				res.fail(Failure{Finding: "C05:" + cls, What: what, Case: map[string]any{"case": i, "op": c.Op, "prefix": conc.prefix, "detail": detail}})
			}
			dump := func() map[string]string {
				m := map[string]string{}
				for _, n := range nodes {
					ns, _ := client.GetNodes(s.nc, "all", conc.id(n), "", true)
					for _, ne := range ns {
						var ps []string
						for _, p := range append(append(data.Points{}, ne.Points...), ne.EdgePoints...) {
							if n == "R" && !strings.HasPrefix(p.Type, conc.prefix) {
								continue
							}
							ps = append(ps, fmt.Sprintf("%s|%s|%d|%v|%s", p.Type, p.Key, p.Time.UnixNano(), p.Value, p.Text))
						}
						sort.Strings(ps)
						h := fmt.Sprint(ne.Hash)
						if n == "R" {
							h = "" // the root's hash covers the other behaviours of this instance as well
						}
						m[ne.Parent+">"+ne.ID] = h + " " + strings.Join(ps, ";")
					}
				}
				return m
			}
			before := dump()
			s.doFence("ep")
			s.drain()
			var opErr error
			if c.Op.K == "move" {
				opErr = client.MoveNode(s.nc, conc.id(c.Op.N), conc.id(c.Op.Old), conc.id(c.Op.New), "driver")
			} else {
				opErr = client.MirrorNode(s.nc, conc.id(c.Op.N), conc.id(c.Op.New), "driver")
			}
			s.doFence("ep")
			var pubs []string
			for _, m := range s.drain() {
				if strings.Contains(m.Subject, conc.prefix) {
					pubs = append(pubs, m.Subject)
				}
			}
			evals++
			after := dump()
			if (opErr != nil) != (c.Reply == "err") {
				if c.Reply == "err" {
					fail("composite-accepted", fmt.Sprintf("%s of %s (old parent %s, new parent %s) succeeded, the specification refuses it", c.Op.K, c.Op.N, c.Op.Old, c.Op.New), nil)
				} else {
					fail("composite-refused", fmt.Sprintf("%s of %s (old parent %s, new parent %s) failed: %v; the specification accepts it", c.Op.K, c.Op.N, c.Op.Old, c.Op.New, opErr), nil)
				}
				continue
			}
			if opErr != nil {
				// answered with an error: no trace
				if !mapsEqual(before, after) {
					var diff []string
					for k, v := range after {
						if before[k] != v {
							diff = append(diff, k)
						}
					}
					for k := range before {
						if _, ok := after[k]; !ok {
							diff = append(diff, k+" (gone)")
						}
					}
					sort.Strings(diff)
					fail("refused-composite-leaves-trace", fmt.Sprintf("%s of %s (old parent %s, new parent %s) was answered with an error (%v) but changed the store", c.Op.K, c.Op.N, c.Op.Old, c.Op.New, opErr), diff)
				} else if len(pubs) > 0 {
					fail("refused-composite-leaves-trace", fmt.Sprintf("%s of %s was answered with an error but something was rebroadcast", c.Op.K, c.Op.N), pubs)
				}
				continue
			}
			// accepted: the predicted placements, hashes in step with the content
			want := map[string]bool{}
			for _, e := range c.Edges {
				up := "root"
				if e.Up != "root" {
					up = conc.id(e.Up)
				}
				want[up+">"+conc.id(e.Down)] = e.Deleted
			}
			got := map[string]bool{}
			for _, n := range nodes {
				ns, _ := client.GetNodes(s.nc, "all", conc.id(n), "", true)
				for _, ne := range ns {
					del, _ := ne.IsTombstone()
					got[ne.Parent+">"+ne.ID] = del
				}
			}
			if fmt.Sprint(want) != fmt.Sprint(got) {
				fail("composite-result", fmt.Sprintf("after %s of %s (old parent %s, new parent %s) the placements differ from the specification", c.Op.K, c.Op.N, c.Op.Old, c.Op.New),
					map[string]any{"store (placement -> deleted)": got, "specification": want})
				continue
			}
			if bad := recomputeAll(s, conc, nodes); bad != "" {
				fail("composite-hash", "after "+c.Op.K+": "+bad, nil)
			}
		}
		// ---- the root stays protected over a restart, also when the root was replaced at run time (an
		// edge <new node> -> "root", which is what an import at "root" sends)
		if cls, what := rerootRestart(); what != "" {
			if cls == "infra" {
				res.Extra["reroot_experiment_not_run"] = what
			} else {
				res.fail(Failure{Finding: "C05:" + cls, What: what})
			}
		}
		evals++
		res.Evaluations = evals
		res.Traces = len(cases)
		res.DistinctNontrivial = len(cases)
		return res.write(*out)
	}
}

func rerootRestart() (string, string) {
	dir, err := os.MkdirTemp("", "verif-reroot-")
	if err != nil {
		return "infra", err.Error()
	}
	defer os.RemoveAll(dir)
	in, err := startInstance(instOpts{dir: dir, id: "reroot-old"})
	if err != nil {
		return "infra", err.Error()
	}
	nc, err := in.connect()
	if err != nil {
		in.stop(false)
		return "infra", err.Error()
	}
	newRoot := "reroot-new"
	err = client.SendEdgePoints(nc, newRoot, "root", data.Points{
		{Type: data.PointTypeTombstone, Value: 0}, {Type: data.PointTypeNodeType, Text: data.NodeTypeDevice}}, true)
	if err != nil {
		nc.Close()
		in.stop(false)
		return "infra", "the store refuses a new root edge: " + err.Error()
	}
	rs, err := client.GetNodes(nc, "root", "all", "", false)
	nc.Close()
	in.stop(false)
	if err != nil || len(rs) != 1 || rs[0].ID != newRoot {
		return "infra", fmt.Sprintf("after the new root edge the instance reports root %v (%v)", rs, err)
	}
	in2, err := startInstance(instOpts{dir: dir, id: "reroot-old"})
	if err != nil {
		return "root-lost-over-restart", "after the root was replaced at run time the instance does not start on its store file any more: " + err.Error()
	}
	defer in2.stop(true)
	if in2.root.ID != newRoot {
		return "root-lost-over-restart", fmt.Sprintf("the root was replaced at run time by %q (acknowledged); after a restart the instance's root is %q again", newRoot, in2.root.ID)
	}
	nc2, err := in2.connect()
	if err != nil {
		return "infra", err.Error()
	}
	defer nc2.Close()
	if err := client.SendEdgePoint(nc2, newRoot, "root", data.Point{Type: data.PointTypeTombstone, Value: 1}, true); err == nil {
		return "root-lost-over-restart", "after a restart a tombstone aimed at the instance's root is accepted"
	}
	return "", ""
}
