package main

import (
	"bufio"
	"encoding/json"
	"fmt"
	"os"
	"sync"
)

// Failure is one case in which the real code disagreed with the prediction of
// the specification.  Finding is a stable class id computed from the *input*
// (never from the outcome alone); the orchestrator matches it against
// known_findings.json.
type Failure struct {
	Finding  string `json:"finding,omitempty"`
	What     string `json:"what"`
	Case     any    `json:"case,omitempty"`
	Expected any    `json:"expected,omitempty"`
	Observed any    `json:"observed,omitempty"`
}

// Result is what every sub-command writes to --out.
type Result struct {
	mu                 sync.Mutex
	Evaluations        int            `json:"evaluations"`
	DistinctNontrivial int            `json:"distinct_nontrivial"`
	Traces             int            `json:"traces"`
	Failures           []Failure      `json:"failures"`
	Samples            []any          `json:"samples"`
	Extra              map[string]any `json:"extra,omitempty"`
}

const maxFailuresKept = 5000

func (r *Result) fail(f Failure) {
	r.mu.Lock()
	defer r.mu.Unlock()
	if r.Extra == nil {
		r.Extra = map[string]any{}
	}
	n, _ := r.Extra["failures_total"].(int)
	r.Extra["failures_total"] = n + 1
	// keep every class represented, but bound the file size
	cnt := 0
	for _, x := range r.Failures {
		if x.Finding == f.Finding {
			cnt++
		}
	}
	if cnt < 20 && len(r.Failures) < maxFailuresKept {
		r.Failures = append(r.Failures, f)
	}
}

func (r *Result) sample(s any, max int) {
	r.mu.Lock()
	defer r.mu.Unlock()
	if len(r.Samples) < max {
		r.Samples = append(r.Samples, s)
	}
}

func (r *Result) write(path string) error {
	if r.Failures == nil {
		r.Failures = []Failure{}
	}
	if r.Samples == nil {
		r.Samples = []any{}
	}
	b, err := json.MarshalIndent(r, "", " ")
	if err != nil {
		return err
	}
	return os.WriteFile(path, b, 0o644)
}

// readJSONLines decodes one JSON value per line into out (a *[]T).
func readJSONLines[T any](path string) ([]T, error) {
	f, err := os.Open(path)
	if err != nil {
		return nil, err
	}
	defer f.Close()
	var ret []T
	sc := bufio.NewScanner(f)
	sc.Buffer(make([]byte, 1<<20), 1<<28)
	ln := 0
	for sc.Scan() {
		ln++
		if len(sc.Bytes()) == 0 {
			continue
		}
		var v T
		if err := json.Unmarshal(sc.Bytes(), &v); err != nil {
			return nil, fmt.Errorf("%s:%d: %v", path, ln, err)
		}
		ret = append(ret, v)
	}
	return ret, sc.Err()
}

// parallel runs f(i) for i in [0,n) on w workers.
func parallel(n, w int, f func(i int)) {
	if w < 1 {
		w = 1
	}
	var wg sync.WaitGroup
	ch := make(chan int, 1024)
	for k := 0; k < w; k++ {
		wg.Add(1)
		go func() {
			defer wg.Done()
			for i := range ch {
				f(i)
			}
		}()
	}
	for i := 0; i < n; i++ {
		ch <- i
	}
	close(ch)
	wg.Wait()
}
