package main

import (
	"flag"
	"fmt"
	"net"
	"strconv"
	"sync"
	"sync/atomic"
	"time"

	"github.com/simpleiot/simpleiot/modbus"
)

// Several clients of one modbus.TCPServer (its connections share the register map): every client
// owns one coil of the same register, writes it with the client API and reads it back.  What the
// client gets back after its own acknowledged write must be what it wrote (C19) - whatever the
// other connections do to the neighbouring coils (ModbusConc.tla).

func init() {
	commands["c19conc"] = func(args []string) error {
		fs := flag.NewFlagSet("c19conc", flag.ExitOnError)
		out := fs.String("out", "", "")
		clients := fs.Int("clients", 6, "")
		dur := fs.Duration("duration", 3*time.Second, "")
		fs.Parse(args)
		quietLogs()
		res := &Result{Extra: map[string]any{}}
		ports, err := freePorts(1)
		if err != nil {
			return err
		}
		regs := &modbus.Regs{}
		regs.AddReg(0, 2)
		srv, err := modbus.NewTCPServer(1, 16, strconv.Itoa(ports[0]), regs, 0)
		if err != nil {
			return err
		}
		go srv.Listen(func(error) {}, func() {}, func() {})
		defer srv.Close()
		var rounds, wrong atomic.Int64
		var first atomic.Value
		stop := time.Now().Add(*dur)
		var wg sync.WaitGroup
		for c := 0; c < *clients; c++ {
			wg.Add(1)
			go func(c int) {
				defer wg.Done()
				sock, err := net.DialTimeout("tcp", "127.0.0.1:"+strconv.Itoa(ports[0]), 2*time.Second)
				if err != nil {
					res.fail(Failure{Finding: "infra", What: "dial: " + err.Error()})
					return
				}
				cl := modbus.NewClient(modbus.NewTCP(sock, time.Second, modbus.TransportClient), 0)
				defer cl.Close()
				val := false
				for time.Now().Before(stop) {
					val = !val
					if err := cl.WriteSingleCoil(1, uint16(c), val); err != nil {
						val = !val
						continue
					}
					got, err := cl.ReadCoils(1, uint16(c), 1)
					if err != nil {
						continue
					}
					rounds.Add(1)
					if len(got) != 1 || got[0] != val {
						wrong.Add(1)
						first.CompareAndSwap(nil, fmt.Sprintf("client %d: wrote coil %d = %v, server acknowledged, read back %v", c, c, val, got))
					}
				}
			}(c)
		}
		wg.Wait()
		if n := wrong.Load(); n > 0 {
			res.fail(Failure{Finding: "concurrent-clients", What: fmt.Sprintf("%d of %d write / read-back rounds of concurrent TCP clients returned something else than what was written; first: %v",
				n, rounds.Load(), first.Load())})
		}
		res.Evaluations = int(rounds.Load())
		res.Traces = *clients
		res.DistinctNontrivial = *clients
		res.Extra["concurrent_rounds"] = rounds.Load()
		return res.write(*out)
	}
}
