package main

import (
	"database/sql"
	"flag"
	"fmt"
	"os"
	"sync"
	"sync/atomic"
	"time"

	_ "modernc.org/sqlite"
)

// diagnostic: do freshly opened connections fail with SQLITE_BUSY while another connection writes,
// depending on where busy_timeout stands in the pragma list of the DSN?
func init() {
	commands["diag-busy"] = func(args []string) error {
		fs := flag.NewFlagSet("diag-busy", flag.ExitOnError)
		first := fs.Bool("timeout-first", false, "")
		secs := fs.Int("secs", 5, "")
		fs.Parse(args)
		dir, _ := os.MkdirTemp("", "verif-busy-")
		defer os.RemoveAll(dir)
		pragmas := "_pragma=foreign_keys(1)&_pragma=journal_mode(WAL)&_pragma=synchronous(NORMAL)&_pragma=busy_timeout(8000)&_pragma=journal_size_limit(100000000)"
		if *first {
			pragmas = "_pragma=busy_timeout(8000)&_pragma=foreign_keys(1)&_pragma=journal_mode(WAL)&_pragma=synchronous(NORMAL)&_pragma=journal_size_limit(100000000)"
		}
		dsn := dir + "/t.sqlite?" + pragmas
		w, err := sql.Open("sqlite", dsn)
		if err != nil {
			return err
		}
		if _, err := w.Exec("CREATE TABLE t (id INTEGER PRIMARY KEY, v TEXT)"); err != nil {
			return err
		}
		stop := time.Now().Add(time.Duration(*secs) * time.Second)
		var wg sync.WaitGroup
		var writes, opens, busy atomic.Int64
		var firstErr atomic.Value
		wg.Add(1)
		go func() {
			defer wg.Done()
			for time.Now().Before(stop) {
				tx, err := w.Begin()
				if err != nil {
					continue
				}
				tx.Exec("INSERT INTO t (v) VALUES ('x')")
				tx.Exec("UPDATE t SET v = 'y' WHERE id % 7 = 0")
				tx.Commit()
				writes.Add(1)
			}
		}()
		for g := 0; g < 6; g++ {
			wg.Add(1)
			go func() {
				defer wg.Done()
				for time.Now().Before(stop) {
					db, err := sql.Open("sqlite", dsn)
					if err != nil {
						continue
					}
					var n int
					err = db.QueryRow("SELECT count(*) FROM t").Scan(&n)
					opens.Add(1)
					if err != nil {
						busy.Add(1)
						firstErr.CompareAndSwap(nil, err.Error())
					}
					db.Close()
				}
			}()
		}
		wg.Wait()
		fmt.Printf("timeout-first=%v writes=%d fresh-connections=%d failed=%d first=%v\n", *first, writes.Load(), opens.Load(), busy.Load(), firstErr.Load())
		return nil
	}
}
