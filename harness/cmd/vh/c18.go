package main

import (
	"bufio"
	"bytes"
	"encoding/json"
	"flag"
	"fmt"
	"os"
	"runtime"
	"sync"
	"time"

	"github.com/simpleiot/simpleiot/modbus"
)

// C18: replay every request printed by TLC (Modbus.tla, Process) into the real
// PDU.ProcessRequest on a real modbus.Regs.

type mbResp struct {
	Kind string `json:"kind"`
	Fc   int    `json:"fc"`
	Data []int  `json:"data"`
}

type c18Case struct {
	Fc      int      `json:"fc"`
	Data    []int    `json:"data"`
	Map     string   `json:"map"`
	A       int      `json:"a"`
	Q       int      `json:"q"`
	Lc      string   `json:"lc"`
	Resps   []mbResp `json:"resps"`
	Writes  [][]int  `json:"writes"`
	Partial bool     `json:"partial"`
	Lo      int      `json:"lo"`
	Hi      int      `json:"hi"`
}

type mbMap struct {
	Regs [][]int           `json:"regs"`
	Val  []json.RawMessage `json:"val"`
}

type mbMaps map[string]mbMap

func mbValidator(kind string) func(uint16) bool {
	switch kind {
	case "even":
		return func(v uint16) bool { return v%2 == 0 }
	case "lt256":
		return func(v uint16) bool { return v < 256 }
	}
	panic("unknown validator " + kind)
}

func (m mbMap) build() (*modbus.Regs, error) {
	r := &modbus.Regs{}
	for _, av := range m.Regs {
		r.AddReg(av[0], 1)
		if err := r.WriteReg(av[0], uint16(av[1])); err != nil {
			return nil, err
		}
	}
	for _, raw := range m.Val {
		var pair []json.RawMessage
		if err := json.Unmarshal(raw, &pair); err != nil {
			return nil, err
		}
		var a int
		var k string
		json.Unmarshal(pair[0], &a)
		json.Unmarshal(pair[1], &k)
		if err := r.AddRegValueValidator(a, mbValidator(k)); err != nil {
			return nil, err
		}
	}
	return r, nil
}

// readMbCases splits the generator output into the maps header and the cases.
func readMbCases[T any](path string) (mbMaps, []T, error) {
	f, err := os.Open(path)
	if err != nil {
		return nil, nil, err
	}
	defer f.Close()
	sc := bufio.NewScanner(f)
	sc.Buffer(make([]byte, 1<<20), 1<<28)
	var maps mbMaps
	var cs []T
	for sc.Scan() {
		b := sc.Bytes()
		if bytes.HasPrefix(b, []byte(`{"maps"`)) {
			var h struct {
				Maps mbMaps `json:"maps"`
			}
			if err := json.Unmarshal(b, &h); err != nil {
				return nil, nil, err
			}
			maps = h.Maps
			continue
		}
		var c T
		if err := json.Unmarshal(b, &c); err != nil {
			return nil, nil, err
		}
		cs = append(cs, c)
	}
	if maps == nil {
		return nil, nil, fmt.Errorf("no maps header in %s", path)
	}
	return maps, cs, sc.Err()
}

func c18Class(c *c18Case) string {
	switch {
	case c.Lc != "exact":
		return fmt.Sprintf("fc%d-%s", c.Fc, c.Lc)
	case (c.Fc == 1 || c.Fc == 2) && (c.Q < 1 || c.Q > 2000),
		(c.Fc == 3 || c.Fc == 4) && (c.Q < 1 || c.Q > 125),
		c.Fc == 15 && (c.Q < 1 || c.Q > 1968), c.Fc == 16 && (c.Q < 1 || c.Q > 123):
		return fmt.Sprintf("fc%d-quantity-limit", c.Fc)
	case c.Fc != 5 && c.Fc != 6 && c.A+c.Q-1 > 65535:
		return fmt.Sprintf("fc%d-address-overflow", c.Fc)
	}
	return fmt.Sprintf("fc%d", c.Fc)
}

func init() {
	commands["c18"] = func(args []string) error {
		fs := flag.NewFlagSet("c18", flag.ExitOnError)
		casesF := fs.String("cases", "", "")
		out := fs.String("out", "", "")
		fs.Parse(args)
		maps, cs, err := readMbCases[c18Case](*casesF)
		if err != nil {
			return err
		}
		res := &Result{Extra: map[string]any{}}
		var mu sync.Mutex
		kinds := map[string]int{}
		nontriv := map[string]bool{}
		parallel(len(cs), runtime.NumCPU(), func(i int) {
			c := &cs[i]
			m, ok := maps[c.Map]
			if !ok {
				panic("unknown map " + c.Map)
			}
			regs, err := m.build()
			if err != nil {
				panic(err)
			}
			pdu := modbus.PDU{FunctionCode: modbus.FunctionCode(c.Fc), Data: toBytes(c.Data)}
			type outT struct {
				resp modbus.PDU
				err  error
				pan  any
			}
			ch := make(chan outT, 1)
			go func() {
				var o outT
				defer func() {
					if r := recover(); r != nil {
						o.pan = r
					}
					ch <- o
				}()
				_, o.resp, o.err = pdu.ProcessRequest(regs)
			}()
			var o outT
			hang := false
			select {
			case o = <-ch:
			case <-time.After(5 * time.Second):
				hang = true
			}
			fail := func(what string, obs any) {
				res.fail(Failure{Finding: c18Class(c), What: what,
					Case:     map[string]any{"fc": c.Fc, "data": fmt.Sprintf("%x", toBytes(c.Data)), "map": c.Map, "addr": c.A, "qty": c.Q, "len": c.Lc},
					Expected: map[string]any{"responses": c.Resps, "writes": c.Writes, "partial": c.Partial},
					Observed: obs})
			}
			obsKind := ""
			switch {
			case hang:
				fail("ProcessRequest did not return within 5 s", nil)
				return
			case o.pan != nil:
				fail(fmt.Sprintf("ProcessRequest panicked: %v", o.pan), nil)
				return
			case o.err != nil:
				obsKind = "reject"
			case o.resp.FunctionCode&0x80 != 0:
				obsKind = "exc"
			default:
				obsKind = "normal"
			}
			okResp := false
			for _, r := range c.Resps {
				if r.Kind != obsKind {
					continue
				}
				if r.Kind == "reject" {
					okResp = true
					break
				}
				if int(o.resp.FunctionCode) == r.Fc && bytes.Equal(o.resp.Data, toBytes(r.Data)) {
					okResp = true
					break
				}
			}
			if !okResp {
				fail("response is not one the specification allows",
					map[string]any{"kind": obsKind, "fc": int(o.resp.FunctionCode), "data": fmt.Sprintf("%x", o.resp.Data), "err": fmt.Sprint(o.err)})
				return
			}
			// register file afterwards
			exp := map[int]int{}
			for _, av := range m.Regs {
				exp[av[0]] = av[1]
			}
			if obsKind == "normal" {
				for _, w := range c.Writes {
					exp[w[0]] = w[1]
				}
			}
			for _, av := range m.Regs {
				got, err := regs.ReadReg(av[0])
				if err != nil {
					fail("register vanished", av[0])
					return
				}
				if int(got) != exp[av[0]] {
					if c.Partial && av[0] >= c.Lo && av[0] <= c.Hi {
						continue
					}
					fail(fmt.Sprintf("register %d holds %#x afterwards, specification says %#x", av[0], got, exp[av[0]]),
						map[string]any{"kind": obsKind, "data": fmt.Sprintf("%x", o.resp.Data)})
					return
				}
			}
			mu.Lock()
			kinds[obsKind]++
			nontriv[fmt.Sprintf("%d|%s|%s|%x", c.Fc, c.Map, obsKind, o.resp.Data)] = true
			mu.Unlock()
			if i%1511 == 0 {
				res.sample(map[string]any{"request": map[string]any{"fc": c.Fc, "data": fmt.Sprintf("%x", toBytes(c.Data)), "map": c.Map},
					"allowed_responses": c.Resps, "observed": map[string]any{"kind": obsKind, "fc": int(o.resp.FunctionCode), "data": fmt.Sprintf("%x", o.resp.Data)}}, 8)
			}
		})
		res.Evaluations = len(cs)
		res.Traces = len(cs)
		res.DistinctNontrivial = len(nontriv)
		res.Extra["observed_kinds"] = kinds
		return res.write(*out)
	}
}
