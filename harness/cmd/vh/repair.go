package main

import (
	"database/sql"
	"encoding/json"
	"flag"
	"fmt"
	"path/filepath"
	"regexp"
	"sort"
	"strings"
	"sync"
	"time"

	"github.com/simpleiot/simpleiot/client"
	"github.com/simpleiot/simpleiot/data"
)

// Verification and repair of stored hashes (Store!Mismatches / Repaired / MaintPass,
// MC_StoreRepair.tla).  Each case builds one of the start shapes on a real instance, gives a set of
// edges a wrong stored hash directly in the store file, and then
//   - asks for a verification: it must report exactly the nodes the specification names;
//   - asks for maintenance as often as the specification's bound (edges + 1): afterwards a
//     verification finds nothing, every hash equals the recomputation from content and no point
//     has changed;
//   - counts the passes the real maintenance needed (diagnostic: the as-coded model predicts it).

type repairCase struct {
	Shape  []sStep    `json:"shape"`
	Cor    [][]string `json:"cor"`
	Report []string   `json:"report"`
	Passes int        `json:"passes"`
}

var hashFailedRe = regexp.MustCompile(`Hash failed for ([^,]+),`)

func init() {
	commands["repair"] = func(args []string) error {
		fs := flag.NewFlagSet("repair", flag.ExitOnError)
		casesF := fs.String("cases", "", "")
		out := fs.String("out", "", "")
		seed := fs.Int("seed", 1, "")
		fs.Parse(args)
		quietLogs()
		cases, err := readJSONLines[repairCase](*casesF)
		if err != nil {
			return err
		}
		res := &Result{Extra: map[string]any{}}
		s, err := newStoreSession()
		if err != nil {
			return err
		}
		defer func() { s.close() }()
		nodes := []string{"A", "B", "C", "R"}
		base := time.Now().Add(-time.Hour).Truncate(time.Second)
		var mu sync.Mutex
		agree, disagree, evals := 0, 0, 0
		passHist := map[int]int{}
		fail := func(i int, cls, what string, detail any) {
			res.fail(Failure{Finding: "C03:" + cls, What: what, Case: map[string]any{"case": i, "corrupted": cases[i].Cor, "detail": detail}})
		}
		dbFile := filepath.Join(s.in.dir, "siot.sqlite")
		for i, c := range cases {
			conc := &sConc{prefix: fmt.Sprintf("r%d-%d-", *seed, i), rootID: s.in.root.ID, base: base, seed: *seed + i}
			if fails, _ := s.replay(c.Shape, conc, nodes, false); len(fails) > 0 || s.dead {
				// the write path itself misbehaves: that is what the store stream reports, not this command
				res.Extra[fmt.Sprintf("shape_not_built_%d", i)] = fmt.Sprint(fails)
				if s.dead {
					break
				}
				continue
			}
			hashFailTap.take()
			cid := func(x string) string {
				if x == "root" {
					return "root"
				}
				return conc.id(x)
			}
			// ---- give the chosen edges a wrong stored hash, behind the store's back
			db, err := sql.Open("sqlite", dbFile+"?_pragma=busy_timeout(8000)")
			if err != nil {
				return err
			}
			for k, e := range c.Cor {
				// another bit for every edge: as in the specification no two corruptions cancel
				m := 1 << uint(k)
				r, err := db.Exec("UPDATE edges SET hash = (hash | ?) - (hash & ?) WHERE up = ? AND down = ?", m, m, cid(e[0]), cid(e[1]))
				n, _ := r.RowsAffected()
				if err != nil || n != 1 {
					db.Close()
					return fmt.Errorf("could not corrupt edge %v: %v (%d rows)", e, err, n)
				}
			}
			db.Close()
			content := func() map[string]string {
				m := map[string]string{}
				for _, n := range nodes {
					ns, _ := client.GetNodes(s.nc, "all", conc.id(n), "", true)
					for _, ne := range ns {
						var ps []string
						for _, p := range append(append(data.Points{}, ne.Points...), ne.EdgePoints...) {
							if n == "R" && !strings.HasPrefix(p.Type, conc.prefix) && p.Type != "tombstone" {
								continue
							}
							ps = append(ps, fmt.Sprintf("%s|%s|%d|%v|%s", p.Type, p.Key, p.Time.UnixNano(), p.Value, p.Text))
						}
						sort.Strings(ps)
						m[ne.Parent+">"+ne.ID] = strings.Join(ps, ";")
					}
				}
				return m
			}
			before := content()
			reported := func() []string {
				set := map[string]bool{}
				for _, l := range hashFailTap.take() {
					if m := hashFailedRe.FindStringSubmatch(l); m != nil && (strings.HasPrefix(m[1], conc.prefix) || m[1] == s.in.root.ID) {
						set[m[1]] = true
					}
				}
				var r []string
				for k := range set {
					r = append(r, k)
				}
				sort.Strings(r)
				return r
			}
			// ---- verification reports exactly the nodes whose stored hash does not fit their content
			if err := client.AdminStoreVerify(s.nc); err != nil {
				fail(i, "verify-request-failed", "verification request failed: "+err.Error(), nil)
				continue
			}
			time.Sleep(30 * time.Millisecond)
			got := reported()
			var want []string
			for _, n := range c.Report {
				want = append(want, conc.id(n))
			}
			sort.Strings(want)
			evals++
			if strings.Join(got, ",") != strings.Join(want, ",") {
				fail(i, "verify-report", "verification reports other nodes than Store!Mismatches", map[string]any{"reported": got, "specification": want})
			}
			if !mapsEqual(before, content()) {
				fail(i, "verify-changes-content", "a verification changed points", nil)
			}
			// ---- maintenance: done after at most edges + 1 passes
			bound := len(c.Shape) + 2
			needed := -1
			for pass := 1; pass <= bound; pass++ {
				if err := client.AdminStoreMaint(s.nc); err != nil {
					fail(i, "maint-request-failed", "maintenance request failed: "+err.Error(), nil)
					break
				}
				time.Sleep(20 * time.Millisecond)
				hashFailTap.take()
				if err := client.AdminStoreVerify(s.nc); err != nil {
					fail(i, "verify-request-failed", "verification request failed: "+err.Error(), nil)
					break
				}
				time.Sleep(20 * time.Millisecond)
				evals += 2
				if len(reported()) == 0 {
					needed = pass
					break
				}
			}
			if len(c.Cor) == 0 {
				needed = 0
			}
			if needed < 0 {
				fail(i, "maint-does-not-repair", fmt.Sprintf("after %d maintenance passes a verification still finds wrong hashes", bound), nil)
				continue
			}
			if !mapsEqual(before, content()) {
				fail(i, "maint-changes-content", "maintenance changed points", nil)
			}
			// every hash is the documented function of the content (independent recomputation)
			if bad := recomputeAll(s, conc, nodes); bad != "" {
				fail(i, "maint-wrong-hash", "after maintenance: "+bad, nil)
			}
			mu.Lock()
			passHist[needed]++
			if needed == c.Passes || (c.Passes == 0 && needed <= 1) {
				agree++
			} else {
				disagree++
				if disagree <= 3 {
					res.Extra[fmt.Sprintf("passes_differ_%d", i)] = map[string]any{"corrupted": c.Cor, "real": needed, "as_coded_model": c.Passes}
				}
			}
			mu.Unlock()
			if i%(len(cases)/4+1) == 0 {
				res.sample(map[string]any{"corrupted": c.Cor, "verification_reported": got, "maintenance_passes_needed": needed, "as_coded_model_predicts": c.Passes}, 4)
			}
		}
		res.Evaluations = evals
		res.Traces = len(cases)
		res.DistinctNontrivial = len(cases)
		res.Extra["maintenance_passes_needed_histogram"] = passHist
		res.Extra["passes_agree_with_as_coded_model"] = agree
		res.Extra["passes_differ_from_as_coded_model"] = disagree
		b, _ := json.Marshal(passHist)
		_ = b
		return res.write(*out)
	}
}

func mapsEqual(a, b map[string]string) bool {
	if len(a) != len(b) {
		return false
	}
	for k, v := range a {
		if b[k] != v {
			return false
		}
	}
	return true
}

// recomputeAll: every edge of the behaviour's nodes: stored hash = XOR of the checksums of its points and of
// the stored hashes of its child edges (documented definition, independent CRC)
func recomputeAll(s *storeSession, c *sConc, nodes []string) string {
	for _, n := range nodes {
		if n == "R" {
			continue
		}
		ns, err := client.GetNodes(s.nc, "all", c.id(n), "", true)
		if err != nil {
			return "read failed: " + err.Error()
		}
		for _, ne := range ns {
			kids, err := client.GetNodes(s.nc, ne.ID, "all", "", true)
			if err != nil {
				return "read failed: " + err.Error()
			}
			var h uint32
			for _, p := range ne.Points {
				h ^= docCRC(p.Time, p.Type, p.Key, p.Text, p.Value)
			}
			for _, p := range ne.EdgePoints {
				h ^= docCRC(p.Time, p.Type, p.Key, p.Text, p.Value)
			}
			for _, k := range kids {
				h ^= k.Hash
			}
			if h != ne.Hash {
				return fmt.Sprintf("stored hash of %s>%s is %08x, recomputation gives %08x", ne.Parent, ne.ID, ne.Hash, h)
			}
		}
	}
	return ""
}
