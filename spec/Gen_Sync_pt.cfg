SPECIFICATION GenSpec
CONSTANTS
  Idents <- GenIdents
  Edges <- GenEdges
  ParentOf <- GenParent
  Fresh <- GenFresh
  Focus = "pt"
  MaxWrites = 2
  MaxOutages = 1
  AsCoded = FALSE
INVARIANTS Dump
