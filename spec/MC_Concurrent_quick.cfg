SPECIFICATION FairSpec
CONSTANTS
  Clients = {"c1", "c2"}
  Idents = {"i1", "i2"}
  MaxTs = 3
  MaxOps = 5
  StaleReads = FALSE
INVARIANTS NeverRejected FinalIsNewest
PROPERTIES EveryCallReturns
