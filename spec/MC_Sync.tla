------------------------------ MODULE MC_Sync ------------------------------
EXTENDS Sync
\* device root "top"; node A below it (edge eA), node B below A (edge eB)
MCEdges == {"eA", "eB"}
MCParent == [e \in MCEdges |-> IF e = "eA" THEN "top" ELSE "eA"]
\* per placement: two node points, one edge point, the tombstone
MCIdents == {[e |-> x, k |-> y] : x \in MCEdges, y \in {"pt", "pt2", "ept", "tomb"}}
MCFresh == {}
\* role 2 adds a node C below A and a node D below C that do not exist at the start
GenEdges == MCEdges \cup {"eC", "eD"}
GenParent == [e \in GenEdges |-> CASE e = "eA" -> "top" [] e = "eB" -> "eA" [] e = "eC" -> "eA" [] OTHER -> "eC"]
GenIdents == MCIdents \cup {[e |-> x, k |-> y] : x \in {"eC", "eD"}, y \in {"pt", "tomb"}}
GenFresh == {"eC", "eD"}

=============================================================================
