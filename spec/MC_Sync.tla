------------------------------ MODULE MC_Sync ------------------------------
EXTENDS Sync
\* device root "top"; node A below it (edge eA), node B below A (edge eB)
MCEdges == {"eA", "eB"}
MCParent == [e \in MCEdges |-> IF e = "eA" THEN "top" ELSE "eA"]
\* per placement: two node points, one edge point, the tombstone
MCIdents == {[e |-> x, k |-> y] : x \in MCEdges, y \in {"pt", "pt2", "ept", "tomb"}}

=============================================================================
