------------------------------ MODULE MC_Sync ------------------------------
EXTENDS Sync
\* device root "top"; node A below it (edge eA), node B below A (edge eB)
MCEdges == {"eA", "eB"}
MCParent == [e \in MCEdges |-> IF e = "eA" THEN "top" ELSE "eA"]
MCIdents == {[e |-> "eA", k |-> "pt"], [e |-> "eA", k |-> "tomb"], [e |-> "eB", k |-> "pt"], [e |-> "eB", k |-> "tomb"]}

=============================================================================
