-------------------------------- MODULE Serial --------------------------------
(***************************************************************************)
(* The serial (MCU) client's link protocol, host side (client/serial.go,    *)
(* client/serial-wrapper.go, docs/ref/serial.md) - beyond the listed        *)
(* properties except for C17's end-to-end clause (a packet that fails its   *)
(* checksum is neither acknowledged nor forwarded).                         *)
(*                                                                         *)
(* A session is a sequence of steps; each step is one frame written by the  *)
(* device or one point batch written to the serial node by another party.   *)
(* Step(st, op) returns the host state after the step and what can be       *)
(* observed: the frames the device receives (acknowledgements, point        *)
(* packets) and what the host publishes on the bus.                         *)
(*                                                                         *)
(* Host state: wrSeq (sequence number of the host's own packets, one byte), *)
(* rx / tx / err / hrRx counters.                                           *)
(*                                                                         *)
(* Deviations of the code from docs/ref/serial.md are named switches:       *)
(*   AsCodedEmpty  a valid packet without points is counted as an error and *)
(*                 not acknowledged (the document says every packet is      *)
(*                 acknowledged, and that the device opens with an empty    *)
(*                 packet)                                                  *)
(*   AsCodedNoRetry the host never retransmits (the document: three retries *)
(*                 without acknowledgement, then offline) - the model has   *)
(*                 no timer, the switch only documents it                   *)
(***************************************************************************)
EXTENDS Integers, Sequences, FiniteSets, TLC

CONSTANTS AsCodedEmpty

\* point types the host does not pass on to the device (configuration of the link itself)
Filtered == {"port", "baud", "description", "errorCount", "errorCountReset", "rxReset", "txReset"}

InitHost == [wrSeq |-> 1,      \* the time sync packet sent when the port was opened was number 1
             rx |-> 0, tx |-> 1, err |-> 0, hrRx |-> 0]

Ack(q) == [kind |-> "ack", seq |-> q, types |-> <<>>]
Pkt(q, types) == [kind |-> "pts", seq |-> q, types |-> types]
Pub(subject, types) == [subject |-> subject, types |-> types]
Out(st, frames, pubs) == [st |-> st, frames |-> frames, pubs |-> pubs]

Inc256(x) == (x + 1) % 256

\* op: [k |-> kind, seq |-> 0..255, types |-> sequence of point types]
\*   device: "pts" (valid, >= 1 point) | "empty" (valid, no point) | "bad" (checksum wrong) |
\*           "short" (less than a header) | "hr" (valid high-rate payload) | "badhr" (high-rate, checksum wrong)
\*   bus:    "write" (another party writes points of the given types to the serial node)
Step(st, op) ==
    CASE op.k = "pts" ->
            Out([st EXCEPT !.rx = @ + 1, !.tx = @ + 1], <<Ack(op.seq)>>, <<Pub("node", op.types)>>)
      [] op.k = "empty" ->
            IF AsCodedEmpty THEN Out([st EXCEPT !.rx = @ + 1, !.err = @ + 1], <<>>, <<>>)
            ELSE Out([st EXCEPT !.rx = @ + 1, !.tx = @ + 1], <<Ack(op.seq)>>, <<>>)
      [] op.k \in {"bad", "short", "badhr"} ->
            Out([st EXCEPT !.err = @ + 1], <<>>, <<>>)
      [] op.k = "hr" ->
            Out([st EXCEPT !.hrRx = @ + 1], <<>>, <<Pub("phrup", <<>>)>>)
      [] op.k = "write" ->
            LET pass == SelectSeq(op.types, LAMBDA t : t \notin Filtered)
            IN IF pass = <<>> THEN Out(st, <<>>, <<>>)
               ELSE Out([st EXCEPT !.wrSeq = Inc256(@), !.tx = @ + 1], <<Pkt(Inc256(st.wrSeq), pass)>>, <<>>)

\* ---- what the protocol promises, as consequences of Step (checked over all sessions by MC_Serial)
\* C17, end to end: nothing of a damaged packet is acknowledged or published
DamagedIsSilent(st, op) ==
    op.k \in {"bad", "short", "badhr"} => (Step(st, op).frames = <<>> /\ Step(st, op).pubs = <<>>)
\* every valid packet with points is acknowledged once, with its own number, and published once
AckedOnce(st, op) ==
    op.k = "pts" => (Step(st, op).frames = <<Ack(op.seq)>> /\ Step(st, op).pubs = <<Pub("node", op.types)>>)
\* what the device sent is never sent back to it: a device step produces no point packet
NoEcho(st, op) ==
    op.k # "write" => \A i \in 1..Len(Step(st, op).frames) : Step(st, op).frames[i].kind = "ack"
\* the host numbers its own packets consecutively modulo 256
Consecutive(st, op) ==
    LET o == Step(st, op) IN
    \A i \in 1..Len(o.frames) : o.frames[i].kind = "pts" => (o.frames[i].seq = Inc256(st.wrSeq) /\ o.st.wrSeq = o.frames[i].seq)
=============================================================================
