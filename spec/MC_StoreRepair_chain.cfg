SPECIFICATION RSpec
CONSTANTS
  Nodes = {"A", "B", "C"}
  R = "R"
  MaxTs = 3
  MaxOps = 1
  Shape = "chain"
  Mode = "graph"
  NaNVal = 999
  AsCodedCollapse = FALSE
  AsCodedEdgeDelta = FALSE
  AsCodedNewEdge = FALSE
  ConcatKey <- ConcatKeyImpl
INVARIANTS VerifySeesIt VerifyIffConsistent RepairRestores MaintConverges MaintKeepsContent
