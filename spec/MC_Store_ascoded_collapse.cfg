SPECIFICATION Spec
CONSTANTS
  Nodes = {"A"}
  R = "R"
  MaxTs = 3
  MaxOps = 3
  Shape = "empty"
  Mode = "lww"
  NaNVal = 999
  AsCodedCollapse = TRUE
  AsCodedEdgeDelta = FALSE
  AsCodedNewEdge = FALSE
  ConcatKey <- ConcatKeyImpl
INVARIANTS NewestWins
VIEW View
