SPECIFICATION GSpec
CONSTANTS
  Actors = {"a1", "a2", "a3"}
  MaxSteps = 4
INVARIANTS Dump ToldOnce ReturnsAfterAll FirstErrorWins
