SPECIFICATION WSpec
CONSTANTS
  MaxWrites = 4
  AsCoded = FALSE
INVARIANTS Holds
PROPERTIES Settles
