------------------------------ MODULE ModbusConc ------------------------------
(***************************************************************************)
(* Concurrent writers on one register map (modbus.Regs is shared by all     *)
(* connections of a TCPServer and by the application): a coil write is a    *)
(* read-modify-write of the 16-bit register the coil lives in.  With the    *)
(* map's lock held across the three steps every acknowledged coil write     *)
(* changes exactly its coil; with a lock per step (AtomicRMW = FALSE) a     *)
(* writer can overwrite another writer's coil with the value it read        *)
(* before - C18's "writes change exactly the addressed ones" under          *)
(* concurrency.                                                             *)
(***************************************************************************)
EXTENDS Integers, FiniteSets, TLC

CONSTANTS Writers,     \* each writer owns one coil of the same register and toggles it
          Rounds,
          AtomicRMW

VARIABLES reg,      \* [Writers -> 0..1]: the bits of the shared register
          pc,       \* [Writers -> "idle" | "read" | "done"]
          tmp,      \* [Writers -> the register value the writer has read]
          want,     \* [Writers -> the value the writer is writing]
          acked,    \* [Writers -> last acknowledged value of the writer's own coil]
          n         \* [Writers -> rounds done]
cvars == <<reg, pc, tmp, want, acked, n>>

Init == /\ reg = [w \in Writers |-> 0] /\ pc = [w \in Writers |-> "idle"]
        /\ tmp = [w \in Writers |-> [x \in Writers |-> 0]] /\ want = [w \in Writers |-> 0]
        /\ acked = [w \in Writers |-> 0] /\ n = [w \in Writers |-> 0]

\* atomic: read, set the bit, store, acknowledge in one step (lock held across)
WriteAtomic(w) ==
    /\ AtomicRMW /\ pc[w] = "idle" /\ n[w] < Rounds
    /\ LET v == 1 - acked[w] IN
          /\ reg' = [reg EXCEPT ![w] = v] /\ acked' = [acked EXCEPT ![w] = v]
    /\ n' = [n EXCEPT ![w] = @ + 1]
    /\ UNCHANGED <<pc, tmp, want>>
\* split: ReadReg and WriteReg each take the lock on their own
Read(w) ==
    /\ ~AtomicRMW /\ pc[w] = "idle" /\ n[w] < Rounds
    /\ tmp' = [tmp EXCEPT ![w] = reg] /\ want' = [want EXCEPT ![w] = 1 - acked[w]]
    /\ pc' = [pc EXCEPT ![w] = "read"]
    /\ UNCHANGED <<reg, acked, n>>
Store(w) ==
    /\ pc[w] = "read"
    /\ reg' = [tmp[w] EXCEPT ![w] = want[w]]          \* the whole register as read, with the own bit changed
    /\ acked' = [acked EXCEPT ![w] = want[w]]
    /\ pc' = [pc EXCEPT ![w] = "idle"] /\ n' = [n EXCEPT ![w] = @ + 1]
    /\ UNCHANGED <<tmp, want>>
Next == \E w \in Writers : WriteAtomic(w) \/ Read(w) \/ Store(w)
Spec == Init /\ [][Next]_cvars

\* every writer's coil holds what that writer last had acknowledged (nobody else writes it)
OwnCoilKept == \A w \in Writers : pc[w] = "idle" => reg[w] = acked[w]
=============================================================================
