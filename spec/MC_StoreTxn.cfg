SPECIFICATION Spec
CONSTANTS
  Batches = {"b1", "b2", "b3"}
  HashSteps = 2
INVARIANTS Durability Atomicity OnlyIssued RootStable KeyStable Opens
