--------------------------- MODULE NewestWinsInd ---------------------------
(***************************************************************************)
(* The integer core of C01 (Store!NewestWins) with an inductive invariant,  *)
(* so that Apalache decides it for histories of any length: what is held    *)
(* for an identity is the greatest timestamp delivered for it, whatever the *)
(* order and number of deliveries.  A bonus over the bounded TLC runs, never *)
(* the deciding check (DESIGN section 11, item 8).                           *)
(***************************************************************************)
EXTENDS Integers, FiniteSets

CONSTANTS
    \* @type: Set(Str);
    Ids,
    \* @type: Int;
    MaxT

VARIABLES
    \* @type: Str -> Int;
    held,
    \* @type: Set(<<Str, Int>>);
    delivered

CInit == Ids = {"a", "b", "c"} /\ MaxT = 6

Init == held = [i \in Ids |-> 0] /\ delivered = {}

\* one delivery: the store keeps the point only if it is newer than what it holds
Deliver(i, t) ==
    /\ delivered' = delivered \union {<<i, t>>}
    /\ held' = [held EXCEPT ![i] = IF t > held[i] THEN t ELSE held[i]]

Next == \E i \in Ids : \E t \in 1..MaxT : Deliver(i, t)

\* sensitivity: a store in which the last delivery wins must not pass
DeliverLast(i, t) ==
    /\ delivered' = delivered \union {<<i, t>>}
    /\ held' = [held EXCEPT ![i] = t]
NextLastWins == \E i \in Ids : \E t \in 1..MaxT : DeliverLast(i, t)

TypeOK == /\ held \in [Ids -> 0..MaxT]
          /\ delivered \in SUBSET (Ids \X (1..MaxT))

\* NewestWins: the timestamp held is 0 if nothing was delivered, else the greatest one delivered
NewestWins ==
    \A i \in Ids :
        /\ \A d \in delivered : d[1] = i => d[2] <= held[i]
        /\ held[i] = 0 \/ <<i, held[i]>> \in delivered
        /\ held[i] = 0 => \A d \in delivered : d[1] # i

IndInv == TypeOK /\ NewestWins
IndInit == IndInv
=============================================================================
