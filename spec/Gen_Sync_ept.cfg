SPECIFICATION GenSpec
CONSTANTS
  Idents <- GenIdents
  Edges <- GenEdges
  ParentOf <- GenParent
  Fresh <- GenFresh
  Focus = "ept"
  MaxWrites = 2
  MaxOutages = 1
  AsCoded = FALSE
INVARIANTS Dump
