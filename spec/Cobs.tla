-------------------------------- MODULE Cobs --------------------------------
(***************************************************************************)
(* COBS framing layer of the serial client (client/cobs-wrapper.go), C16.   *)
(*                                                                         *)
(* The writer turns each frame into  [0] Enc(frame) 0  on the wire (the     *)
(* leading delimiter is optional: CobsWrapper.Write sends it, an MCU peer   *)
(* need not).  The device hands the wire to the framing layer in reads of   *)
(* arbitrary size (DevRead, nondeterministic); bytes that were read but not *)
(* yet consumed stay in `carry`.  A frame is returned as soon as `carry`    *)
(* holds a complete one.  At most one damage event hits the wire.           *)
(*                                                                         *)
(* Bytes are small naturals; payload bytes 1,2 collide with COBS code bytes *)
(* on purpose.  Frames shorter than 254 bytes only (no 0xFF block code) -   *)
(* the long-frame family is produced by the Go driver with the same         *)
(* oracle (delivered = written).                                            *)
(*                                                                         *)
(* Choices where C16 is silent (kept open, DESIGN.md section 8):            *)
(*  - what is returned for a frame that touches the damage (value, error,   *)
(*    nothing) and how many results it produces;                            *)
(*  - zero-length frames are not in the domain: on the wire an empty frame  *)
(*    is indistinguishable from idle delimiters for the consumer, which     *)
(*    discards zero-length reads (client/serial.go listener).               *)
(***************************************************************************)
EXTENDS Integers, Sequences, FiniteSets, TLC

\* ---------------------------------------------------------------- codec
RECURSIVE Enc(_)
FirstZero(f) == IF \E i \in 1..Len(f) : f[i] = 0
                THEN CHOOSE i \in 1..Len(f) : f[i] = 0 /\ \A j \in 1..(i-1) : f[j] # 0
                ELSE Len(f) + 1
\* code byte = distance to the next zero (or to the end), then the non-zero run
Enc(f) == LET z == FirstZero(f)
          IN <<z>> \o SubSeq(f, 1, z - 1) \o
             (IF z > Len(f) THEN <<>> ELSE Enc(SubSeq(f, z + 1, Len(f))))

RECURSIVE Dec(_)
\* e: the bytes between two delimiters (no zero inside).  Err if a code byte
\* points past the end.  Err is a sequence no frame can equal.
Err == <<-1>>
Dec(e) == IF e = <<>> THEN <<>>
          ELSE LET c == e[1] IN
               IF c = 0 \/ c > Len(e) THEN Err
               ELSE LET rest == SubSeq(e, c + 1, Len(e))
                        blk  == SubSeq(e, 2, c)
                    IN IF rest = <<>> THEN blk
                       ELSE LET r == Dec(rest) IN
                            IF r = Err THEN Err ELSE blk \o <<0>> \o r

\* ---------------------------------------------------------------- wire
RECURSIVE Wire(_, _)
Wire(frames, lead) ==
    IF frames = <<>> THEN <<>>
    ELSE (IF lead THEN <<0>> ELSE <<>>) \o Enc(Head(frames)) \o <<0>> \o Wire(Tail(frames), lead)

\* index (1-based) in Wire(frames, lead) of the terminating delimiter of frame k
RECURSIVE EndIdx(_, _, _)
EndIdx(frames, lead, k) ==
    IF k = 0 THEN 0
    ELSE EndIdx(frames, lead, k - 1) + (IF lead THEN 1 ELSE 0) + Len(Enc(frames[k])) + 1
\* index of the first byte that belongs to frame k (its optional leading delimiter)
BeginIdx(frames, lead, k) == EndIdx(frames, lead, k - 1) + 1

NoDamage == [kind |-> "none", i |-> 0, v |-> 0]

ApplyDamage(w, d) ==
    CASE d.kind = "none" -> w
      [] d.kind = "flip" -> [w EXCEPT ![d.i] = d.v]
      [] d.kind = "drop" -> SubSeq(w, 1, d.i - 1) \o SubSeq(w, d.i + 1, Len(w))
      [] d.kind = "ins"  -> SubSeq(w, 1, d.i - 1) \o <<d.v>> \o SubSeq(w, d.i, Len(w))

\* Number of leading frames that lie wholly before the damaged byte.
PreCount(frames, lead, d) ==
    IF d.kind = "none" THEN Len(frames)
    ELSE Cardinality({k \in 1..Len(frames) : EndIdx(frames, lead, k) < d.i})

\* Position, in the *damaged* wire, of the next delimiter after the damage.
NextDelim(dw, d) ==
    LET from == IF d.kind = "drop" THEN d.i ELSE d.i + 1
        zs == {j \in from..Len(dw) : dw[j] = 0}
    IN IF zs = {} THEN Len(dw) + 1 ELSE CHOOSE j \in zs : \A k \in zs : j <= k

\* Number of trailing frames that begin after that delimiter.  Positions are
\* translated back to the undamaged wire (drop shifts by -1, ins by +1).
PostCount(frames, lead, d) ==
    IF d.kind = "none" THEN 0
    ELSE LET dw == ApplyDamage(Wire(frames, lead), d)
             nd == NextDelim(dw, d)
             shift == CASE d.kind = "drop" -> 1 [] d.kind = "ins" -> -1 [] OTHER -> 0
         IN Cardinality({k \in 1..Len(frames) : BeginIdx(frames, lead, k) > nd + shift})

\* ---------------------------------------------------------------- framing layer
VARIABLES frames, lead, dmg,   \* the case (constant along a behaviour)
          wire,                \* what the device will hand out (damage applied)
          pos,                 \* bytes already handed out
          carry,               \* read from the device, not yet consumed
          delivered            \* results returned so far: byte sequences or Err
vars == <<frames, lead, dmg, wire, pos, carry, delivered>>

SkipZeros(s) == LET nz == {i \in 1..Len(s) : s[i] # 0}
                IN IF nz = {} THEN <<>>
                   ELSE SubSeq(s, CHOOSE i \in nz : \A j \in nz : i <= j, Len(s))
HasFrame(s) == \E i \in 1..Len(SkipZeros(s)) : SkipZeros(s)[i] = 0

\* device read of k bytes; the framing layer only asks the device when its
\* carry-over holds no complete frame
DevRead(k) ==
    /\ ~HasFrame(carry)
    /\ pos + k <= Len(wire)
    /\ carry' = carry \o SubSeq(wire, pos + 1, pos + k)
    /\ pos' = pos + k
    /\ UNCHANGED <<frames, lead, dmg, wire, delivered>>

\* return the first complete frame of the carry-over, keep the rest
Deliver ==
    /\ HasFrame(carry)
    /\ LET s == SkipZeros(carry)
           z == FirstZero(s)
       IN /\ delivered' = Append(delivered, Dec(SubSeq(s, 1, z - 1)))
          /\ carry' = SubSeq(s, z + 1, Len(s))
    /\ UNCHANGED <<frames, lead, dmg, wire, pos>>

Next == Deliver \/ \E k \in 1..Len(wire) : DevRead(k)

Done == pos = Len(wire) /\ ~HasFrame(carry)

\* ---------------------------------------------------------------- properties
IsPrefixOf(a, b) == Len(a) <= Len(b) /\ SubSeq(b, 1, Len(a)) = a

RoundTrip == \A k \in 1..Len(frames) : Dec(Enc(frames[k])) = frames[k]

\* C16, first sentence: with no damage, whatever the read sizes, the results are
\* the written frames, in order, each once.
InOrderExactlyOnce ==
    dmg.kind = "none" =>
        /\ IsPrefixOf(delivered, frames)
        /\ Done => delivered = frames

\* C16, second sentence: results = Pre \o X \o Post with X arbitrary.
DamageContained ==
    LET pre == PreCount(frames, lead, dmg)
        post == PostCount(frames, lead, dmg)
        n == Len(frames)
    IN /\ Len(delivered) <= pre => IsPrefixOf(delivered, frames)
       /\ Len(delivered) > pre => SubSeq(delivered, 1, pre) = SubSeq(frames, 1, pre)
       /\ Done => /\ Len(delivered) >= pre + post
                  /\ SubSeq(delivered, Len(delivered) - post + 1, Len(delivered))
                       = SubSeq(frames, n - post + 1, n)
=============================================================================
