----------------------------- MODULE MC_PointOps -----------------------------
(* Role 1: the laws of PointOps over every case of a small alphabet.           *)
(* Role 2: every case printed with the outcome the specification predicts; the *)
(* harness (vh pointops) runs the real data.Points.Add / Merge / Collapse.      *)
EXTENDS PointOps, Json

CONSTANTS Keys, Times, Vals, Tombs, Texts,     \* alphabet of incoming points
          MaxPrior, MaxIn, MaxBatch, MaxTimes  \* lengths; maxTime values for Merge

VARIABLE c

Pts == {[type |-> "a", key |-> k, ts |-> t, val |-> v, text |-> x, tomb |-> b] :
           k \in Keys, t \in Times, v \in Vals, x \in Texts, b \in Tombs}
\* what a client may already hold: a smaller alphabet, both spellings of key 0
PriorPts == {[type |-> "a", key |-> k, ts |-> t, val |-> 0, text |-> "", tomb |-> b] :
           k \in {"", "0"}, t \in {1, 2}, b \in {0, 1}}
SeqsUpTo(S, n) == UNION {[1..m -> S] : m \in 0..n}
Priors == SeqsUpTo(PriorPts, MaxPrior)

Init == \/ \E ps \in Priors, p \in Pts : c = [t |-> "add", ps |-> ps, in |-> <<p>>, mt |-> 0]
        \/ \E in \in SeqsUpTo(Pts, MaxBatch) : c = [t |-> "fold", ps |-> <<>>, in |-> in, mt |-> 0]
        \/ \E ps \in Priors, in \in SeqsUpTo(Pts, MaxIn), mt \in MaxTimes : in # <<>> /\ c = [t |-> "merge", ps |-> ps, in |-> in, mt |-> mt]
        \/ \E in \in SeqsUpTo(Pts, MaxBatch) : c = [t |-> "collapse", ps |-> in, in |-> <<>>, mt |-> 0]
Next == UNCHANGED c
Spec == Init /\ [][Next]_c

LawAdd == c.t = "fold" => AddOrderIndependent(c.in) /\ AddNoDuplicates(c.in)
LawCollapse == c.t = "collapse" => CollapseLaw(c.ps)
LawMergeSub == c.t = "merge" => MergeReturnsSub(c.ps, c.in, c.mt)
LawMergeTomb == c.t = "merge" => MergeKeepsTombstone(c.ps, c.in, c.mt)

SetToSeq(S) == CHOOSE f \in [1..Cardinality(S) -> S] : \A i, j \in 1..Cardinality(S) : f[i] = f[j] => i = j
Dump ==
    PrintT(ToJson(
      IF c.t = "add" THEN [t |-> "add", ps |-> c.ps, in |-> c.in, out |-> Add(c.ps, c.in[1])]
      ELSE IF c.t = "fold" THEN [t |-> "fold", in |-> c.in, out |-> AddAll(<<>>, c.in)]
      ELSE IF c.t = "merge" THEN LET r == Merge(c.ps, c.in, c.mt)
                                 IN [t |-> "merge", ps |-> c.ps, in |-> c.in, mt |-> c.mt, out |-> r[1], ret |-> r[2]]
      ELSE [t |-> "collapse", ps |-> c.ps, out |-> SetToSeq(Collapse(c.ps))]))
=============================================================================
