SPECIFICATION Spec
CONSTANTS
  AsCodedEmpty = TRUE
  MaxSteps = 10
  Seqs = {0, 7, 255}
INVARIANTS Dump
