SPECIFICATION Spec
CONSTANTS
  Users = {"U1", "U2"}
  Groups = {"G1", "G2"}
  R = "R"
  MaxOps = 7
INVARIANTS WalkAgrees ListingSound NoCycle
VIEW View
