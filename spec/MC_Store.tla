------------------------------ MODULE MC_Store ------------------------------
(* State machine around Store!Apply for role 1 (C01 C03 C05 C06 invariants)   *)
(* and role 2 (behaviours with the predicted observable after every step).    *)
EXTENDS Store, Json

CONSTANTS Nodes, R, MaxTs, MaxOps, Mode,   \* Mode: "graph" | "lww"
          Shape      \* the graph the behaviours start from: "empty" | "diamond" | "chain" | "mirror"

AllNodes == Nodes \cup {R}
\* the slot of the as-coded collapse: the string Type+Key of the raw point
ConcatKeyImpl(p) == IF p.type = "xb" /\ p.key = "" THEN "xb"
                    ELSE IF p.type = "x" /\ p.key = "b" THEN "xb"
                    ELSE IF p.type = "x" /\ p.key = "" THEN "x"
                    ELSE IF p.type = "x" /\ p.key = "0" THEN "x0"
                    ELSE IF p.type = "xb" /\ p.key = "0" THEN "xb0"
                    ELSE IF p.type = "xb" /\ p.key = "b" THEN "xbb"
                    ELSE IF p.type = "x" /\ p.key = "b0" THEN "xb0"
                    ELSE IF p.key = "" THEN p.type ELSE IF p.key = "0" THEN <<p.type, "0">> ELSE <<p.type, p.key>>
NodeIdx(n) == IF n = R THEN 0 ELSE IF n = "A" THEN 1 ELSE IF n = "B" THEN 2 ELSE 3

Batch(pts, nt) == [pts |-> pts, nodeType |-> nt]
Np(n, b) == [kind |-> "np", n |-> n, p |-> "", b |-> b]
Ep(n, p, b) == [kind |-> "ep", n |-> n, p |-> p, b |-> b]

\* ---- graph alphabet (C03 C05 C06): one node-point identity, one edge-point
\* identity, the tombstone; values are distinct per owner and timestamp
VPt(n, ts) == Pt("v", "0", ts, 10 * NodeIdx(n) + ts, 0, "")
EPt(n, p, ts) == Pt("ev", "0", ts, 100 + 10 * NodeIdx(n) + ts, 0, "")
Tomb(ts, v) == Pt("tombstone", "0", ts, v, 0, "")
NaNPt == Pt("v", "0", 1, NaNVal, 0, "")
NaNEPt == Pt("ev", "0", 1, NaNVal, 0, "")
Pairs == {y \in Nodes \X AllNodes : y[1] # y[2]}
GraphOps ==
    {Np(n, Batch(<<VPt(n, ts)>>, "")) : n \in AllNodes, ts \in 1..MaxTs}
    \cup {Np(n, Batch(<<VPt(n, 1), NaNPt>>, "")) : n \in Nodes}
    \* both spellings of key "0" in one batch (one identity: the newer one is stored, the hash follows)
    \cup {Np(n, Batch(<<Pt("v", "", 2, 10 * NodeIdx(n) + 2, 0, ""), Pt("v", "0", 3, 10 * NodeIdx(n) + 3, 0, "")>>, "")) : n \in Nodes}
    \cup {Np(n, Batch(<<Pt("v", "0", 3, 10 * NodeIdx(n) + 3, 0, ""), Pt("v", "", 2, 10 * NodeIdx(n) + 2, 0, "")>>, "")) : n \in Nodes}
    \cup {Ep(y[1], y[2], Batch(<<Pt("ev", "", 2, 100 + 10 * NodeIdx(y[1]) + 2, 0, ""), Pt("ev", "0", 3, 100 + 10 * NodeIdx(y[1]) + 3, 0, "")>>, "")) : y \in Pairs}
    \* a NaN that a newer point of the same identity in the same batch supersedes: still refused
    \cup {Np(n, Batch(<<NaNPt, VPt(n, 2)>>, "")) : n \in Nodes}
    \cup {Ep(y[1], y[2], Batch(<<NaNEPt, EPt(y[1], y[2], 2)>>, "t")) : y \in Pairs}
    \cup {Ep(n, p, Batch(<<Tomb(1, 0)>>, "t")) : n \in Nodes, p \in AllNodes}             \* create (also self-edge)
    \* one timestamp carries one fixed tombstone value (distinct timestamps per identity):
    \* even ts = delete, odd ts = undelete
    \cup {Ep(y[1], y[2], Batch(<<Tomb(ts, (ts + 1) % 2)>>, "")) : y \in Pairs, ts \in 2..MaxTs}
    \cup {Ep(y[1], y[2], Batch(<<EPt(y[1], y[2], ts)>>, "")) : y \in Pairs, ts \in 1..MaxTs}
    \cup {Ep(y[1], y[2], Batch(<<EPt(y[1], y[2], 1), NaNPt>>, "t")) : y \in Pairs}
    \cup {Ep(R, Sentinel, Batch(<<Tomb(MaxTs, 1)>>, ""))}                                 \* delete the root

\* ---- last-write-wins alphabet (C01): identities chosen around the collapse
\* collision ("xb","") / ("x","b") and the two spellings of key "0"; one
\* timestamp carries one fixed point (distinct timestamps per identity)
RawKey(nk, ts) == IF nk = "0" THEN (IF ts % 2 = 1 THEN "" ELSE "0") ELSE nk
\* tombstone counts neither grow nor shrink with the timestamp: 2, 0, 1, 2, 0, 1, ... (the newest
\* point wins with ALL of its fields, also when an older one carried a larger count)
LTomb(ts) == CASE ts % 3 = 1 -> 2 [] ts % 3 = 2 -> 0 [] OTHER -> 1
LPt(type, nk, ts) == Pt(type, RawKey(nk, ts), ts, ts, LTomb(ts), IF ts % 2 = 0 THEN "o" ELSE "")
\* ("x","b0") and ("xb","0") also concatenate alike (after key normalisation)
LwwIdents == {<<"x", "0">>, <<"x", "b">>, <<"xb", "0">>, <<"x", "b0">>}
LwwUniverse == {LPt(i[1], i[2], ts) : i \in LwwIdents, ts \in 1..MaxTs}
LwwBatches == {<<p>> : p \in LwwUniverse} \cup {<<p, q>> : p \in LwwUniverse, q \in LwwUniverse}
LwwOps == {Np("A", Batch(b, "")) : b \in LwwBatches} \cup {Ep("A", R, Batch(b, "")) : b \in LwwBatches}

Ops == IF Mode = "graph" THEN GraphOps ELSE LwwOps

VARIABLES s, delivered, n_ops
mvars == <<s, delivered, n_ops>>

OwnerOf(op) == IF op.kind = "np" THEN <<op.n>> ELSE <<op.p, op.n>>

Create(n, p) == Ep(n, p, Batch(<<Tomb(1, 0)>>, "t"))
ShapeOps == CASE Shape = "diamond" -> <<Create("A", R), Create("B", R), Create("C", "A"), Create("C", "B")>>
              [] Shape = "chain"   -> <<Create("A", R), Create("B", "A"), Create("C", "B")>>
              [] Shape = "mirror"  -> <<Create("A", R), Create("B", R), Create("C", "A"), Create("C", "B"),
                                        Ep("C", "B", Batch(<<Tomb(2, 1)>>, "")), Np("C", Batch(<<VPt("C", 1)>>, ""))>>
              \* a deleted edge at the bottom / at the top of a chain: cycles through deleted edges,
              \* rebroadcast of edge points above a deleted ancestor edge, re-adding
              [] Shape = "delbottom" -> <<Create("A", R), Create("B", "A"), Ep("B", "A", Batch(<<Tomb(2, 1)>>, ""))>>
              \* a node moved from A to B: its older placement is the deleted one
              [] Shape = "moved"   -> <<Create("A", R), Create("B", R), Create("C", "A"), Create("C", "B"),
                                        Ep("C", "A", Batch(<<Tomb(2, 1)>>, ""))>>
              [] Shape = "deltop"  -> <<Create("A", R), Create("B", "A"), Create("C", "B"),
                                        Ep("A", R, Batch(<<Tomb(2, 1)>>, ""))>>
              [] OTHER             -> <<>>
RECURSIVE ApplyAll(_, _, _)
ApplyAll(st, ops, i) == IF i > Len(ops) THEN st ELSE ApplyAll(Apply(st, ops[i]).s, ops, i + 1)
InitS == IF Mode = "graph" THEN ApplyAll(InitStore(R), ShapeOps, 1)
         ELSE \* lww: the edge R -> A exists already
              Apply(InitStore(R), Ep("A", R, Batch(<<>>, "t"))).s

\* what the start shape delivered (all of its requests are accepted)
ShapeDelivered ==
    IF Mode # "graph" THEN [o \in {} |-> {}]
    ELSE [o \in {OwnerOf(ShapeOps[i]) : i \in 1..Len(ShapeOps)} |->
            UNION {SeqToSet(ShapeOps[i].b.pts) : i \in {j \in 1..Len(ShapeOps) : OwnerOf(ShapeOps[j]) = o}}]
Init == /\ s = InitS /\ n_ops = 0
        /\ delivered = ShapeDelivered

Step(op) ==
    LET r == Apply(s, op)
        o == OwnerOf(op)
    IN /\ s' = r.s
       /\ n_ops' = n_ops + 1
       /\ delivered' = IF r.reply = "err" THEN delivered
                       ELSE [x \in (DOMAIN delivered) \cup {o} |->
                               (IF x \in DOMAIN delivered THEN delivered[x] ELSE {})
                               \cup (IF x = o THEN SeqToSet(op.b.pts) ELSE {})]
VARIABLE hist    \* role 2 only: the behaviour so far with predicted observables
Next == n_ops < MaxOps /\ \E op \in Ops : Step(op)
Spec == Init /\ hist = <<>> /\ [][Next /\ UNCHANGED hist]_<<mvars, hist>>
\* the depth counter is not part of the state's identity (BFS reaches every state
\* first at its minimal depth)
View == <<s, delivered>>

\* ---------------------------------------------------------------- invariants
\* C01
StoredOf(o) == IF Len(o) = 1 THEN NodePts(s, o[1]) ELSE (IF o \in s.edges THEN s.epts[o] ELSE {})
NewestWins == \A o \in DOMAIN delivered : StoredOf(o) = Newest(delivered[o])
OneRowPerIdentity ==
    /\ \A n \in DOMAIN s.npts : \A p, q \in s.npts[n] : Ident(p) = Ident(q) => p = q
    /\ \A e \in s.edges : \A p, q \in s.epts[e] : Ident(p) = Ident(q) => p = q
\* C03
HashOK == HashConsistent(s)
\* C05
AcyclicInv == Acyclic(s)
RootNeverDeleted == ~DeletedIn(s, <<Sentinel, R>>) /\ s.root = R
\* a refused request changes nothing and publishes nothing - for every request
\* of the alphabet, from every reachable state
RefusedLeavesNoTrace ==
    \A op \in Ops : LET r == Apply(s, op) IN r.reply = "err" => (r.s = s /\ r.out = {})
\* C06: operational republish = declarative ancestor set, for every request from every state
RebroadcastExact ==
    \A op \in Ops : LET r == Apply(s, op) IN
        r.reply = "" =>
            r.out = IF op.kind = "np" THEN ExpectedSubjects(r.s, op.n, <<op.n>>, TRUE)
                    ELSE ExpectedSubjects(r.s, op.n, <<op.n, op.p>>, FALSE)
\* C03, last clause: a change of content changes the hash of the written edge and
\* of every ancestor edge.  Fails for nodes reachable by an even number of paths
\* (finding F3c) - checked in a separate "must fail" configuration.
AncEdges(st, n) == {e \in st.edges : e[2] = n \/ e[2] \in Anc(st, n, FALSE)}
ChangeReachesRoot ==
    \A op \in Ops : LET r == Apply(s, op) IN
        (r.reply = "" /\ op.kind = "np" /\ r.s.npts # s.npts)
            => \A e \in AncEdges(s, op.n) : r.s.hash[e] # s.hash[e]

\* reads (beyond the listed properties): the walk clients use to enumerate the tree finds exactly
\* the nodes connected to the root by live edges; the filters are consistent with each other
TypeOfEdge(e) == IF e[2] = R THEN "device" ELSE "t"
RD(st, p, n, t, d) == Read(st, p, n, t, d, TypeOfEdge)
ReadsAgree ==
    /\ WalkFromRoot(s, TypeOfEdge) = LiveNodes(s)
    /\ \A n \in Nodes : RD(s, "all", n, "", TRUE) = UNION {RD(s, p, n, "", TRUE) : p \in AllNodes}
    /\ RD(s, "all", R, "", TRUE) = RD(s, "root", "all", "", TRUE)          \* id is ignored below "root"
    /\ \A n \in AllNodes : RD(s, "root", n, "", TRUE) = RD(s, "root", "all", "", TRUE)
    /\ \A p \in AllNodes : RD(s, p, "all", "", TRUE) = UNION {RD(s, p, n, "", TRUE) : n \in AllNodes}
    /\ UNION {RD(s, p, "all", "", TRUE) : p \in AllNodes \cup {Sentinel}} = s.edges
    /\ \A p \in AllNodes, d \in BOOLEAN : RD(s, p, "all", "", d) = RD(s, p, "all", "t", d) \cup RD(s, p, "all", "device", d)
    /\ \A p \in AllNodes : RD(s, p, "all", "", FALSE) = {e \in RD(s, p, "all", "", TRUE) : ~DeletedIn(s, e)}
    /\ RD(s, "root", "all", "", TRUE) = {<<Sentinel, R>>}

\* C05 for moves and mirrors: a refused composite operation leaves no trace - from every reachable state
Places == AllNodes \cup {Sentinel}
MoveTs == 50      \* "now": later than every timestamp of the alphabet
MovesAtomic == \A n \in AllNodes, old \in Places, new \in AllNodes :
                  MoveAllOrNothing(s, n, old, new, MoveTs, "t", FALSE)
MovesAtomicAsCoded == \A n \in AllNodes, old \in Places, new \in AllNodes :
                  MoveAllOrNothing(s, n, old, new, MoveTs, "t", TRUE)
MirrorsAtomic == \A n \in AllNodes, new \in AllNodes :
                  LET r == Mirror(s, n, new, MoveTs, "t") IN r.reply = "err" => (r.s = s /\ r.out = {})

\* ---------------------------------------------------------------- role 2
gvars == <<s, delivered, n_ops, hist>>
\* the read requests whose answers are predicted after a step: those around the written node and
\* edge after every step, the whole family after the last one
QRec(st, p, n, t, d) == [parent |-> p, id |-> n, typ |-> t, del |-> d, err |-> ReadRefused(p, n),
                         res |-> IF ReadRefused(p, n) THEN <<>>
                                 ELSE SetToSeqAny({<<e[1], e[2]>> : e \in RD(st, p, n, t, d)})]
QAround(st, op) ==
    {QRec(st, "all", op.n, t, d) : t \in {"", "t"}, d \in BOOLEAN}
    \cup (IF op.kind = "ep" THEN {QRec(st, op.p, n, "", d) : n \in {op.n, "all"}, d \in BOOLEAN} ELSE {})
    \cup {QRec(st, "root", "all", "", FALSE)}
QFull(st) ==
    {QRec(st, p, n, td[1], td[2]) : p \in AllNodes \cup {"all", "root", "none"}, n \in AllNodes \cup {"all"},
                                    td \in {<<"", FALSE>>, <<"", TRUE>>, <<"t", FALSE>>, <<"device", TRUE>>}}
Queries(st, op, last) == SetToSeqAny(IF last THEN QFull(st) ELSE QAround(st, op))
Obs(st) == [edges |-> SetToSeqAny({[up |-> e[1], down |-> e[2], hash |-> SetToSeqAny(st.hash[e]),
                                    pts |-> SetToSeqAny(st.epts[e])] : e \in st.edges}),
            nodes |-> SetToSeqAny({[id |-> n, pts |-> SetToSeqAny(st.npts[n])] : n \in DOMAIN st.npts})]
\* the start shape is part of every printed behaviour (the driver has to build it)
ShapeHist == [i \in 1..Len(ShapeOps) |->
                LET before == ApplyAll(InitStore(R), SubSeq(ShapeOps, 1, i - 1), 1)
                    r == Apply(before, ShapeOps[i])
                IN [op |-> ShapeOps[i], reply |-> r.reply, out |-> SetToSeqAny(r.out), obs |-> Obs(r.s),
                    q |-> Queries(r.s, ShapeOps[i], FALSE)]]
GenInit == Init /\ hist = IF Mode = "graph" THEN ShapeHist ELSE <<>>
GenNext == /\ n_ops < MaxOps
           /\ \E op \in Ops : /\ Step(op)
                              /\ LET r == Apply(s, op)
                                 IN hist' = Append(hist, [op |-> op, reply |-> r.reply, out |-> SetToSeqAny(r.out), obs |-> Obs(r.s),
                                                          q |-> Queries(r.s, op, n_ops + 1 = MaxOps)])
GenSpec == GenInit /\ [][GenNext]_gvars
MSpec == GenInit /\ [][UNCHANGED gvars]_gvars
Dump == n_ops = MaxOps => PrintT(ToJson(hist))
\* composite operations from the start shape: one line per (kind, node, old parent, new parent)
EdgeView(st) == SetToSeqAny({[up |-> e[1], down |-> e[2], deleted |-> DeletedIn(st, e)] : e \in st.edges})
MoveCases ==
    {[k |-> "move", n |-> n, old |-> old, new |-> new] : n \in Nodes, old \in AllNodes, new \in AllNodes}
    \cup {[k |-> "mirror", n |-> n, old |-> "", new |-> new] : n \in Nodes, new \in AllNodes}
DupCases == {[k |-> "dup", n |-> n, old |-> "", new |-> new] : n \in Nodes, new \in AllNodes}
MoveDump ==
    /\ \A c \in MoveCases :
        LET r == IF c.k = "move" THEN Move(InitS, c.n, c.old, c.new, MoveTs, "t", FALSE)
                 ELSE Mirror(InitS, c.n, c.new, MoveTs, "t")
        IN PrintT(ToJson([shape |-> ShapeHist, op |-> c, reply |-> r.reply, edges |-> EdgeView(r.s),
                          out |-> SetToSeqAny(r.out), copies |-> <<>>]))
    /\ \A c \in DupCases :
        PrintT(ToJson([shape |-> ShapeHist, op |-> c,
                       reply |-> IF DupRefused(InitS, c.n) THEN "err" ELSE IF DupDiverges(InitS, c.n, c.new) THEN "diverges" ELSE "",
                       edges |-> EdgeView(InitS), out |-> <<>>,
                       copies |-> IF DupRefused(InitS, c.n) THEN <<>> ELSE SetToSeqAny(DupCopies(InitS, c.n))]))
DupTrees == \A n \in Nodes : DupIsTree(s, n)
\* C01: one line per delivered set (subsets of the universe) with the expected read
LwwSets == {S \in SUBSET LwwUniverse : Cardinality(S) >= 1 /\ Cardinality(S) <= 4}
ASSUME Mode # "lwwsets" \/ PrintT(ToJson([universe |-> SetToSeqAny(LwwUniverse)]))
=============================================================================
