SPECIFICATION Spec
CONSTANTS
  Mins <- MinsQ
  WdSets <- WdQ
  DateSets <- DatesAll
  W0s = {0, 3, 6}
  Days = {1, 2, 3}
INVARIANTS Dump
