SPECIFICATION Spec
CONSTANTS
  Nodes = {"A"}
  R = "R"
  MaxTs = 4
  MaxOps = 4
  Shape = "empty"
  Mode = "lww"
  NaNVal = 999
  AsCodedCollapse = FALSE
  AsCodedEdgeDelta = FALSE
  AsCodedNewEdge = FALSE
  ConcatKey <- ConcatKeyImpl
INVARIANTS NewestWins OneRowPerIdentity HashOK
VIEW View
