SPECIFICATION FairSpec
CONSTANTS
  Keys = {"R-C1", "G-C1", "G-C2"}
  MaxEnv = 4
  AsCodedScan = FALSE
  AsCodedSubscribe = TRUE
INVARIANTS TypeOK
PROPERTIES Quiesce
