SPECIFICATION FairSpec
CONSTANTS
  Idents <- MCIdents
  Edges <- MCEdges
  ParentOf <- MCParent
  Fresh <- MCFresh
  MaxWrites = 4
  MaxOutages = 2
  AsCoded = FALSE
INVARIANTS NoLostWrite
PROPERTIES Converges Monotone
