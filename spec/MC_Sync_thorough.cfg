SPECIFICATION FairSpec
CONSTANTS
  Idents <- MCIdents
  Edges <- MCEdges
  ParentOf <- MCParent
  MaxWrites = 4
  MaxOutages = 2
  AsCoded = FALSE
INVARIANTS NoLostWrite
PROPERTIES Converges Monotone
