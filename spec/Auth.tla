-------------------------------- MODULE Auth --------------------------------
(***************************************************************************)
(* Access control (api/nodes.go, api/key.go, api/auth.go, store.userCheck,  *)
(* client.GetNodesForUser, server/nats-server.go) - C09.                    *)
(*                                                                         *)
(* Part 1, the gate.  A request to the node API is classified by what its   *)
(* Authorization header carries (AuthClass); it is served iff the class is  *)
(* the instance token itself or "Bearer <token issued by this instance and  *)
(* not expired>".  Everything else is answered 401 and has no effect.       *)
(*                                                                         *)
(* Part 2, login and listing over user placements.  The graph is the        *)
(* store's (edges with a live/deleted flag); operations are the client API  *)
(* calls (SendNode, MirrorNode, MoveNode, DeleteNode), each stamped "now",  *)
(* so the latest operation on an edge decides its flag.                     *)
(***************************************************************************)
EXTENDS Integers, Sequences, FiniteSets, TLC

\* ---------------------------------------------------------------- part 1
AuthClasses == {
    "absent", "token-exact", "token-wrong", "token-case", "token-space", "token-prefix",
    "bearer-valid", "bearer-expired", "bearer-otherkey", "bearer-none", "bearer-hs384", "bearer-hs512",
    "bearer-rs256hdr", "bearer-tampered", "bearer-truncated", "bearer-nojti", "bearer-garbage",
    "valid-no-bearer", "bearer-lowercase", "bearer-only", "basic"}
Served(a) == a \in {"token-exact", "bearer-valid"}
\* node API paths are gated; the login path and static files are not
Gated(pathClass) == pathClass \in {"nodes", "nodes-slash", "node", "node-points", "node-samples", "node-parents",
                                   "node-not", "nodes-dotdot", "nodes-doubleslash"}
Status401(pathClass, a) == Gated(pathClass) /\ ~Served(a)

\* ---------------------------------------------------------------- part 2
CONSTANTS Users, Groups, R
Sentinel == "root"
Parents == Groups \cup {R}
\* candidate edges <<parent, child>>: groups under the root or under another group, users anywhere
CandEdges == {<<p, g>> \in Parents \X Groups : p # g} \cup (Parents \X Users)

VARIABLES live,      \* [created edges -> BOOLEAN]
          hist
avars == <<live, hist>>

Created == DOMAIN live
LiveEdges == {e \in Created : live[e]}
LiveUp(n) == {e[1] : e \in {x \in LiveEdges : x[2] = n}}
AnyUp(n) == {e[1] : e \in {x \in Created : x[2] = n}}
LiveDown(n) == {e[2] : e \in {x \in LiveEdges : x[1] = n}}

RECURSIVE Clo(_, _)
Clo(S, live1) == LET step(x) == IF live1 THEN LiveUp(x) ELSE AnyUp(x)
                     S2 == S \cup UNION {step(x) : x \in S}
                 IN IF S2 = S THEN S ELSE Clo(S2, live1)
RECURSIVE CloDown(_)
CloDown(S) == LET S2 == S \cup UNION {LiveDown(x) : x \in S} IN IF S2 = S THEN S ELSE CloDown(S2)

\* declarative: still connected to the root through non-deleted edges
Eligible(u) == R \in Clo(LiveUp(u), TRUE)
\* operational, intended: depth-first walk over the edges above the user that
\* skips a deleted edge and goes on with the next one
RECURSIVE Walk(_, _)
Walk(n, seen) ==
    \E p \in LiveUp(n) \ seen : p = R \/ Walk(p, seen \cup {n})
\* the listing a logged-in user gets: for every live placement, the parent
\* and everything below the parent through live edges
Listing(u) == UNION {{p} \cup CloDown(LiveDown(p)) : p \in LiveUp(u)}

WouldCycle(n, p) == n = p \/ n \in Clo(AnyUp(p), FALSE)

Add(n, p) ==   \* SendNode / MirrorNode / undelete
    /\ <<p, n>> \in CandEdges
    /\ (<<p, n>> \in Created \/ ~WouldCycle(n, p))
    /\ live' = [e \in Created \cup {<<p, n>>} |-> IF e = <<p, n>> THEN TRUE ELSE live[e]]
Del(n, p) ==
    /\ <<p, n>> \in Created
    /\ live' = [live EXCEPT ![<<p, n>>] = FALSE]
Move(n, p1, p2) ==
    /\ p1 # p2 /\ <<p1, n>> \in Created /\ <<p2, n>> \in CandEdges
    /\ (<<p2, n>> \in Created \/ ~WouldCycle(n, p2))
    /\ live' = [e \in Created \cup {<<p2, n>>} |->
                  IF e = <<p2, n>> THEN TRUE ELSE IF e = <<p1, n>> THEN FALSE ELSE live[e]]

SetToSeqAny(S) == LET RECURSIVE f(_)
                      f(T) == IF T = {} THEN <<>> ELSE LET x == CHOOSE y \in T : TRUE IN <<x>> \o f(T \ {x})
                  IN f(S)

Init == live = [e \in {} |-> TRUE] /\ hist = <<>>

CONSTANT MaxOps
Log(op) == hist' = Append(hist, [op |-> op,
                                 eligible |-> [u \in Users |-> Eligible(u)'],
                                 listing |-> [u \in Users |-> SetToSeqAny(Listing(u)')]])
Next == /\ Len(hist) < MaxOps
        /\ \/ \E e \in CandEdges : Add(e[2], e[1]) /\ Log([k |-> "add", n |-> e[2], p |-> e[1], q |-> ""])
           \/ \E e \in CandEdges : Del(e[2], e[1]) /\ Log([k |-> "del", n |-> e[2], p |-> e[1], q |-> ""])
           \/ \E e \in CandEdges, p2 \in Parents : Move(e[2], e[1], p2) /\ Log([k |-> "move", n |-> e[2], p |-> e[1], q |-> p2])
Spec == Init /\ [][Next]_avars

\* C09 on the model: the walk the store performs agrees with the statement
WalkAgrees == \A u \in Users : Eligible(u) <=> Walk(u, {})
\* a user sees only subtrees of the places the user is attached to; in particular
\* nothing when the user has no live placement
ListingSound == \A u \in Users : LiveUp(u) = {} => Listing(u) = {}
NoCycle == \A n \in Groups : n \notin Clo(AnyUp(n), FALSE)
=============================================================================
