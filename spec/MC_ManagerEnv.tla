--------------------------- MODULE MC_ManagerEnv ---------------------------
(***************************************************************************)
(* Role 2 for C07 / C08: concrete environment schedules for the manager.    *)
(* The graph: root R; group G and a node P of a configured parent type      *)
(* below R; managed nodes C1, C2 placed below R, G or P; kid nodes K1 (of   *)
(* C1) and K2 (of C2).  Every operation is one call of the client API.      *)
(* After each operation the module prints the abstract state Manager.tla    *)
(* talks about: the live placements and their child sets.  `w` says         *)
(* whether the driver waits for quiescence after the operation.             *)
(***************************************************************************)
EXTENDS Integers, Sequences, FiniteSets, TLC, Json

CONSTANTS MaxOps, Mode     \* Mode: "struct" (all operations) | "write" (a fixed graph, then point batches only)
Cs == {"C1", "C2"}
Par == {"R", "G", "P"}
KidOf(c) == IF c = "C1" THEN "K1" ELSE "K2"

VARIABLES edge,    \* [Cs \X Par -> {"none", "live", "del"}]   placement edges
          up,      \* [{"G","P"} -> {"none", "live", "del"}]   G and P below R
          kid,     \* [Cs -> {"none", "live", "del"}]
          hist, batch
evars == <<edge, up, kid, hist, batch>>

Connected(p) == IF p = "R" THEN TRUE ELSE up[p] = "live"
Live == {<<p, c>> \in Par \X Cs : edge[<<c, p>>] = "live" /\ Connected(p)}
KidsOf(c) == IF kid[c] = "live" THEN {KidOf(c)} ELSE {}
Exists(c) == \E p \in Par : edge[<<c, p>>] # "none"

SetToSeqAny(S) == LET RECURSIVE f(_)
                      f(T) == IF T = {} THEN <<>> ELSE LET x == CHOOSE y \in T : TRUE IN <<x>> \o f(T \ {x})
                  IN f(S)
Snapshot == [live |-> SetToSeqAny({k[1] \o "-" \o k[2] : k \in Live'}),
             kids |-> [c \in Cs |-> SetToSeqAny(KidsOf(c)')]]
Log(op, w) == hist' = Append(hist, [op |-> op, w |-> w] @@ Snapshot)
Op0(k, n, p) == [k |-> k, n |-> n, p |-> p, o |-> "", b |-> 0]
Op(k, n, p, o) == [k |-> k, n |-> n, p |-> p, o |-> o, b |-> batch]

\* "write" mode starts from: C1 below R and below G (mirror), K1 below C1, C2 below P
SetupOps == << [op |-> Op0("mkup", "G", "R"), w |-> FALSE, live |-> <<>>, kids |-> [c \in Cs |-> <<>>]],
               [op |-> Op0("mkup", "P", "R"), w |-> FALSE, live |-> <<>>, kids |-> [c \in Cs |-> <<>>]],
               [op |-> Op0("mk", "C1", "R"), w |-> FALSE, live |-> <<"R-C1">>, kids |-> [c \in Cs |-> <<>>]],
               [op |-> Op0("mk", "C1", "G"), w |-> FALSE, live |-> <<"R-C1", "G-C1">>, kids |-> [c \in Cs |-> <<>>]],
               [op |-> Op0("mkkid", "K1", "C1"), w |-> FALSE, live |-> <<"R-C1", "G-C1">>, kids |-> ("C1" :> <<"K1">> @@ "C2" :> <<>>)],
               [op |-> Op0("mk", "C2", "P"), w |-> TRUE, live |-> <<"R-C1", "G-C1", "P-C2">>, kids |-> ("C1" :> <<"K1">> @@ "C2" :> <<>>)] >>
Init == IF Mode = "write"
        THEN /\ edge = [x \in Cs \X Par |-> IF x \in {<<"C1", "R">>, <<"C1", "G">>, <<"C2", "P">>} THEN "live" ELSE "none"]
             /\ up = [x \in {"G", "P"} |-> "live"] /\ kid = ("C1" :> "live" @@ "C2" :> "none")
             /\ hist = SetupOps /\ batch = 0
        ELSE /\ edge = [x \in Cs \X Par |-> "none"] /\ up = [x \in {"G", "P"} |-> "none"]
             /\ kid = [c \in Cs |-> "none"] /\ hist = <<>> /\ batch = 0

\* structural operations (w: wait for quiescence afterwards or go on at once)
MkUp(g, w) == /\ up[g] # "live" /\ up' = [up EXCEPT ![g] = "live"] /\ UNCHANGED <<edge, kid, batch>>
              /\ Log(Op("mkup", g, "R", ""), w)
DelUp(g, w) == /\ up[g] = "live" /\ up' = [up EXCEPT ![g] = "del"] /\ UNCHANGED <<edge, kid, batch>>
               /\ Log(Op("delup", g, "R", ""), w)
Mk(c, p, w) == /\ edge[<<c, p>>] # "live" /\ (IF p = "R" THEN TRUE ELSE up[p] # "none")
               /\ edge' = [edge EXCEPT ![<<c, p>>] = "live"] /\ UNCHANGED <<up, kid, batch>>
               /\ Log(Op("mk", c, p, ""), w)
Del(c, p, w) == /\ edge[<<c, p>>] = "live"
                /\ edge' = [edge EXCEPT ![<<c, p>>] = "del"] /\ UNCHANGED <<up, kid, batch>>
                /\ Log(Op("del", c, p, ""), w)
MkKid(c, w) == /\ Exists(c) /\ kid[c] # "live" /\ kid' = [kid EXCEPT ![c] = "live"] /\ UNCHANGED <<edge, up, batch>>
               /\ Log(Op("mkkid", KidOf(c), c, ""), w)
DelKid(c, w) == /\ kid[c] = "live" /\ kid' = [kid EXCEPT ![c] = "del"] /\ UNCHANGED <<edge, up, batch>>
                /\ Log(Op("delkid", KidOf(c), c, ""), w)
\* point batches (C08): only issued in a quiescent system (the previous operation waited)
\* in "write" mode nothing structural happens after the set-up, so batches go out back to back
Quiet == IF Mode = "write" THEN TRUE ELSE IF hist = <<>> THEN TRUE ELSE hist[Len(hist)].w
Origins == {"", "self", "other", "peer"}     \* empty, the client's node id, a user id, the other client's id
Write(n, o) == /\ Quiet /\ Live # {}
               /\ (n \in Cs => Exists(n)) /\ (n \in {"K1", "K2"} => \E c \in Cs : KidOf(c) = n /\ kid[c] = "live")
               /\ batch' = batch + 1 /\ UNCHANGED <<edge, up, kid>>
               /\ Log([k |-> "write", n |-> n, p |-> "", o |-> o, b |-> batch + 1], Mode # "write")
WriteEdge(c, p, o) == /\ Quiet /\ edge[<<c, p>>] = "live" /\ Connected(p)
                      /\ batch' = batch + 1 /\ UNCHANGED <<edge, up, kid>>
                      /\ Log([k |-> "writeedge", n |-> c, p |-> p, o |-> o, b |-> batch + 1], Mode # "write")

Next == /\ Len(hist) < MaxOps
        /\ \/ Mode = "struct" /\ \E g \in {"G", "P"}, w \in BOOLEAN : MkUp(g, w) \/ DelUp(g, w)
           \/ Mode = "struct" /\ \E c \in Cs, p \in Par, w \in BOOLEAN : Mk(c, p, w) \/ Del(c, p, w)
           \/ Mode = "struct" /\ \E c \in Cs, w \in BOOLEAN : MkKid(c, w) \/ DelKid(c, w)
           \/ \E n \in Cs \cup {"K1", "K2", "G"}, o \in Origins : Write(n, o)
           \/ \E c \in Cs, p \in Par, o \in Origins : WriteEdge(c, p, o)
Spec == Init /\ [][Next]_evars
Dump == Len(hist) = MaxOps => PrintT(ToJson(hist))
=============================================================================
