--------------------------- MODULE MC_ManagerEnv ---------------------------
(***************************************************************************)
(* Role 2 for C07 / C08: concrete environment schedules for the manager.    *)
(* The graph: root R; group G and a node P of a configured parent type      *)
(* below R; managed nodes C1, C2 placed below R, G or P; kid nodes K1 (of   *)
(* C1) and K2 (of C2).  Every operation is one call of the client API.      *)
(* After each operation the module prints the abstract state Manager.tla    *)
(* talks about: the live placements and their child sets.  `w` says         *)
(* whether the driver waits for quiescence after the operation.             *)
(***************************************************************************)
EXTENDS Integers, Sequences, FiniteSets, TLC, Json

CONSTANTS MaxOps, Mode     \* Mode: "struct" (all operations) | "write" (a fixed graph, then point batches only)
                           \*       | "kids" (the fixed graph, then children of the managed nodes come and go)
Cs == {"C1", "C2"}
Par == {"R", "G", "P"}
KidOf(c) == IF c = "C1" THEN "K1" ELSE "K2"

VARIABLES edge,    \* [Cs \X Par -> {"none", "live", "del"}]   placement edges
          up,      \* [{"G","P"} -> {"none", "live", "del"}]   G and P below R
          kid,     \* [Cs -> {"none", "live", "del"}]
          hist, batch
evars == <<edge, up, kid, hist, batch>>

Connected(p) == IF p = "R" THEN TRUE ELSE up[p] = "live"
Live == {<<p, c>> \in Par \X Cs : edge[<<c, p>>] = "live" /\ Connected(p)}
KidsOf(c) == IF kid[c] = "live" THEN {KidOf(c)} ELSE {}
Exists(c) == \E p \in Par : edge[<<c, p>>] # "none"

SetToSeqAny(S) == LET RECURSIVE f(_)
                      f(T) == IF T = {} THEN <<>> ELSE LET x == CHOOSE y \in T : TRUE IN <<x>> \o f(T \ {x})
                  IN f(S)
Snapshot == [live |-> SetToSeqAny({k[1] \o "-" \o k[2] : k \in Live'}),
             kids |-> [c \in Cs |-> SetToSeqAny(KidsOf(c)')]]
\* inj: the driver issues the operation while the manager sits between building the client of the
\* owning node (reading its children) and subscribing to its updates (hook verifManagerWindow)
LogI(op, w, inj) == hist' = Append(hist, [op |-> op, w |-> w, inj |-> inj] @@ Snapshot)
Log(op, w) == LogI(op, w, FALSE)
\* a client of c is about to be built: the previous operation placed c somewhere connected and
\* the driver did not wait
Building(c) == /\ hist # <<>>
               /\ LET h == hist[Len(hist)] IN h.op.k = "mk" /\ h.op.n = c /\ ~h.w /\ Connected(h.op.p)
Op0(k, n, p) == [k |-> k, n |-> n, p |-> p, o |-> "", b |-> 0, u |-> "", t |-> ""]
Op(k, n, p, o) == [k |-> k, n |-> n, p |-> p, o |-> o, b |-> batch, u |-> "", t |-> ""]
\* timestamps of the points of a write: "new" = now; "same" = the timestamp of the previous write to
\* the same node or edge (C08 quantifies over non-decreasing timestamps per identity: a point as new
\* as the stored one replaces it)
Stamps == {"new", "same"}
\* how a placement comes (back) to life: a first creation sends the node; one that was deleted is
\* undeleted either by mirroring it again (tombstone 0 and node type on the edge) or by the bare
\* edge point tombstone = 0 that the UI's undelete sends
Ways(st) == IF st = "none" THEN {"node"} ELSE {"mirror", "bare"}
MkOp(k, n, p, u) == [Op(k, n, p, "") EXCEPT !.u = u]

\* "write" mode starts from: C1 below R and below G (mirror), K1 below C1 (created below the root and
\* moved there), C2 below P
SetupOps == << [op |-> Op0("mkup", "G", "R"), w |-> FALSE, inj |-> FALSE, live |-> <<>>, kids |-> [c \in Cs |-> <<>>]],
               [op |-> Op0("mkup", "P", "R"), w |-> FALSE, inj |-> FALSE, live |-> <<>>, kids |-> [c \in Cs |-> <<>>]],
               [op |-> Op0("mk", "C1", "R"), w |-> FALSE, inj |-> FALSE, live |-> <<"R-C1">>, kids |-> [c \in Cs |-> <<>>]],
               [op |-> Op0("mk", "C1", "G"), w |-> FALSE, inj |-> FALSE, live |-> <<"R-C1", "G-C1">>, kids |-> [c \in Cs |-> <<>>]],
               [op |-> [Op0("mkkid", "K1", "C1") EXCEPT !.u = "moved"], w |-> FALSE, inj |-> FALSE, live |-> <<"R-C1", "G-C1">>, kids |-> ("C1" :> <<"K1">> @@ "C2" :> <<>>)],
               [op |-> Op0("mk", "C2", "P"), w |-> TRUE, inj |-> FALSE, live |-> <<"R-C1", "G-C1", "P-C2">>, kids |-> ("C1" :> <<"K1">> @@ "C2" :> <<>>)] >>
Init == IF Mode \in {"write", "kids"}
        THEN /\ edge = [x \in Cs \X Par |-> IF x \in {<<"C1", "R">>, <<"C1", "G">>, <<"C2", "P">>} THEN "live" ELSE "none"]
             /\ up = [x \in {"G", "P"} |-> "live"] /\ kid = ("C1" :> "live" @@ "C2" :> "none")
             /\ hist = SetupOps /\ batch = 0
        ELSE /\ edge = [x \in Cs \X Par |-> "none"] /\ up = [x \in {"G", "P"} |-> "none"]
             /\ kid = [c \in Cs |-> "none"] /\ hist = <<>> /\ batch = 0

\* structural operations (w: wait for quiescence afterwards or go on at once)
MkUp(g, w) == /\ up[g] # "live" /\ up' = [up EXCEPT ![g] = "live"] /\ UNCHANGED <<edge, kid, batch>>
              /\ \E u \in Ways(up[g]) : Log(MkOp("mkup", g, "R", u), w)
DelUp(g, w) == /\ up[g] = "live" /\ up' = [up EXCEPT ![g] = "del"] /\ UNCHANGED <<edge, kid, batch>>
               /\ Log(Op("delup", g, "R", ""), w)
Mk(c, p, w) == /\ edge[<<c, p>>] # "live" /\ (IF p = "R" THEN TRUE ELSE up[p] # "none")
               /\ edge' = [edge EXCEPT ![<<c, p>>] = "live"] /\ UNCHANGED <<up, kid, batch>>
               /\ \E u \in Ways(edge[<<c, p>>]) : Log(MkOp("mk", c, p, u), w)
Del(c, p, w) == /\ edge[<<c, p>>] = "live"
                /\ edge' = [edge EXCEPT ![<<c, p>>] = "del"] /\ UNCHANGED <<up, kid, batch>>
                /\ Log(Op("del", c, p, ""), w)
MkKid(c, w) == /\ Exists(c) /\ kid[c] # "live" /\ kid' = [kid EXCEPT ![c] = "live"] /\ UNCHANGED <<edge, up, batch>>
               \* a child that does not exist yet is either created in place or created elsewhere
               \* (below the root) and moved here: its older, deleted placement stays in the store
               /\ \E u \in (Ways(kid[c]) \cup (IF kid[c] = "none" THEN {"moved"} ELSE {})), inj \in {FALSE, Building(c)} :
                     LogI(MkOp("mkkid", KidOf(c), c, u), w, inj)
DelKid(c, w) == /\ kid[c] = "live" /\ kid' = [kid EXCEPT ![c] = "del"] /\ UNCHANGED <<edge, up, batch>>
                /\ \E inj \in {FALSE, Building(c)} : LogI(Op("delkid", KidOf(c), c, ""), w, inj)
\* point batches (C08): only issued in a quiescent system (the previous operation waited)
\* in "write" mode nothing structural happens after the set-up, so batches go out back to back
Quiet == IF Mode = "write" THEN TRUE ELSE IF hist = <<>> THEN TRUE ELSE hist[Len(hist)].w
Origins == {"", "self", "other", "peer"}     \* empty, the client's node id, a user id, the other client's id
Write(n, o) == /\ Quiet /\ Live # {}
               /\ (n \in Cs => Exists(n)) /\ (n \in {"K1", "K2"} => \E c \in Cs : KidOf(c) = n /\ kid[c] = "live")
               /\ batch' = batch + 1 /\ UNCHANGED <<edge, up, kid>>
               /\ \E t \in Stamps : Log([k |-> "write", n |-> n, p |-> "", o |-> o, b |-> batch + 1, u |-> "", t |-> t], Mode # "write")
WriteEdge(c, p, o) == /\ Quiet /\ edge[<<c, p>>] = "live" /\ Connected(p)
                      /\ batch' = batch + 1 /\ UNCHANGED <<edge, up, kid>>
                      /\ \E t \in Stamps : Log([k |-> "writeedge", n |-> c, p |-> p, o |-> o, b |-> batch + 1, u |-> "", t |-> t], Mode # "write")

\* in "kids" mode a client that is being built always gets a child change into its window
Racing == Mode = "kids" /\ \E c \in Cs : Building(c)
Next == /\ Len(hist) < MaxOps
        /\ IF Racing
           THEN \E c \in Cs, w \in BOOLEAN :
                   /\ Building(c)
                   /\ \/ /\ Exists(c) /\ kid[c] # "live" /\ kid' = [kid EXCEPT ![c] = "live"] /\ UNCHANGED <<edge, up, batch>>
                         /\ \E u \in (Ways(kid[c]) \cup (IF kid[c] = "none" THEN {"moved"} ELSE {})) : LogI(MkOp("mkkid", KidOf(c), c, u), w, TRUE)
                      \/ /\ kid[c] = "live" /\ kid' = [kid EXCEPT ![c] = "del"] /\ UNCHANGED <<edge, up, batch>>
                         /\ LogI(Op("delkid", KidOf(c), c, ""), w, TRUE)
           ELSE
           \/ Mode = "struct" /\ \E g \in {"G", "P"}, w \in BOOLEAN : MkUp(g, w) \/ DelUp(g, w)
           \/ Mode \in {"struct", "kids"} /\ \E c \in Cs, p \in Par, w \in BOOLEAN : Mk(c, p, w) \/ Del(c, p, w)
           \/ Mode \in {"struct", "kids"} /\ \E c \in Cs, w \in BOOLEAN : MkKid(c, w) \/ DelKid(c, w)
           \/ Mode # "kids" /\ \E n \in Cs \cup {"K1", "K2", "G"}, o \in Origins : Write(n, o)
           \/ Mode # "kids" /\ \E c \in Cs, p \in Par, o \in Origins : WriteEdge(c, p, o)
           \/ Mode = "kids" /\ \E n \in {"K1", "K2"} : Write(n, "other")
Spec == Init /\ [][Next]_evars
Dump == Len(hist) = MaxOps => PrintT(ToJson(hist))
=============================================================================
