SPECIFICATION GenSpec
CONSTANTS
  MaxAddr = 140
  BitCounts = {1, 2, 7, 8, 9, 12, 15, 16, 17, 31, 32, 33, 63, 64, 65, 127, 500, 1500, 2000}
  RegCounts = {1, 2, 3, 16, 17, 31, 33, 63, 64, 65, 90, 95, 96, 97, 98, 125}
  AddrsS = {0, 1, 7, 8, 15, 16, 17, 100, 139, 140, 141, 2000, 65535, 65534, 65520}
  WordVals = {0, 1, 255, 256, 32767, 32768, 65535, 4660}
  Depth = 12
  Tampers = {"none", "req-integrity", "req-truncate", "resp-integrity", "resp-truncate", "unit", "resp-late"}
INVARIANTS Dump
