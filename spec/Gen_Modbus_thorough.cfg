SPECIFICATION Spec
CONSTANTS
  FCs = {0, 1, 2, 3, 4, 5, 6, 7, 8, 15, 16, 22, 23, 24, 43, 129, 255}
  Addrs = {0, 1, 2, 5, 15, 16, 17, 32, 33, 65520, 65534, 65535}
  Qtys = {0, 1, 2, 7, 8, 9, 15, 16, 17, 123, 124, 125, 126, 127, 128, 255, 1968, 1969, 2000, 2001, 2040, 2041, 2048, 32767, 32768, 65280, 65535}
  LenClasses = {"exact", "short", "long", "bcwrong", "empty"}
  MapNames = {"empty", "sparse", "dense4", "dense130", "dense300", "valid", "top", "coiltop"}
INVARIANTS Dump
