SPECIFICATION Spec
CONSTANTS
  MaxAddr = 8
  BitCounts = {1, 12, 17}
  RegCounts = {1, 3}
  AddrsS = {0, 7, 9, 65534, 65535, 65520}
  WordVals = {0, 65535}
  Depth = 2
  Tampers = {"none", "resp-integrity", "unit", "resp-late"}
INVARIANTS ReadMatchesFile TamperedIsError LateIsError
