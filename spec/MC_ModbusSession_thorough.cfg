SPECIFICATION Spec
CONSTANTS
  MaxAddr = 8
  BitCounts = {1, 8, 12, 17}
  RegCounts = {1, 3, 9}
  AddrsS = {0, 7, 9}
  WordVals = {0, 1, 65535}
  Depth = 3
  Tampers = {"none", "req-integrity", "resp-integrity", "resp-truncate", "unit", "resp-late"}
INVARIANTS ReadMatchesFile TamperedIsError LateIsError
