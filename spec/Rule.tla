-------------------------------- MODULE Rule --------------------------------
(***************************************************************************)
(* The rule client (client/rule.go: ruleProcessPoints, run, ruleRunActions, *)
(* ruleInactiveActions) - C13.                                              *)
(*                                                                         *)
(* A rule has conditions and two action lists.  A batch of points from one  *)
(* node is folded over the conditions point by point (operational, as the   *)
(* code does); the declarative reading says: after the batch a condition is *)
(* active iff the LAST point of the batch that matches its filters          *)
(* satisfies its comparison (unchanged if none matches), the rule is active *)
(* iff all conditions are, and iff the rule's state changed the action list *)
(* of the new state runs once and the other list is marked inactive.        *)
(***************************************************************************)
EXTENDS Integers, Sequences, FiniteSets, TLC

\* condition: [nodeF, typeF, keyF, vt, op, thr, txt]   ("" filter = any)
\* point:     [type, key, val, txt]
\* action:    [target, ptype, val, txt]               (setValue)

\* a schedule condition looks at trigger points only (from any node); their time decides.  The
\* window arithmetic is Schedule.tla (C14); here a trigger point carries val = 1 if its time lies
\* in the condition's window and 0 if not.
Matches(c, node, p) ==
    IF c.vt = "schedule" THEN p.type = "trigger"
    ELSE /\ (c.nodeF = "" \/ c.nodeF = node)
         /\ (c.keyF = "" \/ c.keyF = p.key)
         /\ (c.typeF = "" \/ c.typeF = p.type)

\* substring relation on the model's texts
Contains(s, sub) == sub = "" \/ s = sub \/ (s = "ab" /\ sub \in {"a", "b"}) \/ (s = "ba" /\ sub \in {"a", "b"})

Sat(c, p) ==
    CASE c.vt = "number" ->
            (CASE c.op = ">" -> p.val > c.thr [] c.op = "<" -> p.val < c.thr
               [] c.op = "=" -> p.val = c.thr [] c.op = "!=" -> p.val # c.thr [] OTHER -> FALSE)
      [] c.vt = "onOff"  -> (c.thr # 0) = (p.val # 0)
      [] c.vt = "schedule" -> p.val = 1
      [] c.vt = "text"   ->
            (CASE c.op = "=" -> p.txt = c.txt [] c.op = "!=" -> p.txt # c.txt
               [] c.op = "contains" -> Contains(p.txt, c.txt) [] OTHER -> FALSE)
      [] OTHER -> FALSE

\* ---- operational: fold points x conditions, emitting a write per change
RECURSIVE FoldConds(_, _, _, _, _, _)
\* returns <<condActive, emissions>>
FoldConds(conds, act, em, node, p, i) ==
    IF i > Len(conds) THEN <<act, em>>
    ELSE IF ~Matches(conds[i], node, p) THEN FoldConds(conds, act, em, node, p, i + 1)
    ELSE LET a == Sat(conds[i], p)
         IN IF a # act[i]
            THEN FoldConds(conds, [act EXCEPT ![i] = a], Append(em, [k |-> "cond", i |-> i, v |-> a]), node, p, i + 1)
            ELSE FoldConds(conds, act, em, node, p, i + 1)
RECURSIVE FoldPoints(_, _, _, _, _, _)
FoldPoints(conds, act, em, node, pts, j) ==
    IF j > Len(pts) THEN <<act, em>>
    ELSE LET r == FoldConds(conds, act, em, node, pts[j], 1)
         IN FoldPoints(conds, r[1], r[2], node, pts, j + 1)

AllActive(act) == \A i \in 1..Len(act) : act[i]

\* the writes of a state change: set-value points and active flags
ActionEmissions(actA, actI, nowActive) ==
    LET run == IF nowActive THEN actA ELSE actI
        off == IF nowActive THEN actI ELSE actA
        runName == IF nowActive THEN "A" ELSE "I"
        offName == IF nowActive THEN "I" ELSE "A"
    IN [j \in 1..(2 * Len(run)) |->
          IF j % 2 = 1 THEN [k |-> "set", list |-> runName, j |-> (j + 1) \div 2]
          ELSE [k |-> "actActive", list |-> runName, j |-> j \div 2, v |-> TRUE]]
       \o [j \in 1..Len(off) |-> [k |-> "actActive", list |-> offName, j |-> j, v |-> FALSE]]

\* one batch.  st = [cond, rule]; returns [cond, rule, em]
Batch(conds, actA, actI, st, node, pts) ==
    LET r == FoldPoints(conds, st.cond, <<>>, node, pts, 1)
        all == AllActive(r[1])
        changed == all # st.rule
        em2 == IF changed THEN Append(r[2], [k |-> "rule", v |-> all]) \o ActionEmissions(actA, actI, all) ELSE r[2]
    IN [cond |-> r[1], rule |-> all, em |-> em2]

\* A set-value action writes a point to its target node with the rule as origin.  That point flows
\* up through the rule's parent like any other, so the rule sees it and evaluates it as a batch of
\* its own ("the latest matching point" includes points the rule wrote itself): feedback.
\* Cascade = the batch, then one batch per set-value write it caused, in order, to the given depth.
SetPoint(a) == [type |-> a.ptype, key |-> "", val |-> a.val, txt |-> a.txt]
RECURSIVE Cascade(_, _, _, _, _, _, _)
Cascade(conds, actA, actI, st, node, pts, depth) ==
    LET b == Batch(conds, actA, actI, st, node, pts)
        sets == SelectSeq(b.em, LAMBDA e : e.k = "set")
        RECURSIVE follow(_, _, _)
        follow(cur, em, i) ==
            IF i > Len(sets) \/ depth = 0 THEN [cond |-> cur.cond, rule |-> cur.rule, em |-> em]
            ELSE LET a == (IF sets[i].list = "A" THEN actA ELSE actI)[sets[i].j]
                     r == Cascade(conds, actA, actI, cur, a.target, <<SetPoint(a)>>, depth - 1)
                 IN follow([cond |-> r.cond, rule |-> r.rule], em \o r.em, i + 1)
    IN follow([cond |-> b.cond, rule |-> b.rule], b.em, 1)

\* ---- declarative
LastMatch(c, node, pts) ==
    LET is == {j \in 1..Len(pts) : Matches(c, node, pts[j])}
    IN IF is = {} THEN 0 ELSE CHOOSE j \in is : \A k \in is : k <= j
DeclCond(conds, st, node, pts) ==
    [i \in 1..Len(conds) |->
        LET j == LastMatch(conds[i], node, pts) IN IF j = 0 THEN st.cond[i] ELSE Sat(conds[i], pts[j])]

\* C13 on one batch
BatchCorrect(conds, actA, actI, st, node, pts) ==
    LET b == Batch(conds, actA, actI, st, node, pts)
        setsA == {e \in {b.em[x] : x \in 1..Len(b.em)} : e.k = "set" /\ e.list = "A"}
        setsI == {e \in {b.em[x] : x \in 1..Len(b.em)} : e.k = "set" /\ e.list = "I"}
    IN /\ b.cond = DeclCond(conds, st, node, pts)
       /\ b.rule = AllActive(b.cond)
       /\ (b.rule # st.rule) =>
             /\ Cardinality(IF b.rule THEN setsA ELSE setsI) = Len(IF b.rule THEN actA ELSE actI)   \* each once
             /\ (IF b.rule THEN setsI ELSE setsA) = {}
       /\ (b.rule = st.rule) => (setsA = {} /\ setsI = {})
=============================================================================
