SPECIFICATION GenSpec
CONSTANTS
  Nodes = {"A", "B", "C"}
  R = "R"
  MaxTs = 3
  MaxOps = 2
  Shape = "moved"
  Mode = "graph"
  NaNVal = 999
  AsCodedCollapse = FALSE
  AsCodedEdgeDelta = FALSE
  AsCodedNewEdge = FALSE
  ConcatKey <- ConcatKeyImpl
INVARIANTS Dump
