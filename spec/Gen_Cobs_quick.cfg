SPECIFICATION GenSpec
CONSTANTS
  Bytes = {0, 1, 2}
  MaxFrames = 2
  MaxLen = 2
  WithDamage = TRUE
  DmgVals = {0, 1, 3}
INVARIANTS Dump
