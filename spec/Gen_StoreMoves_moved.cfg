SPECIFICATION MSpec
CONSTANTS
  Nodes = {"A", "B", "C"}
  R = "R"
  MaxTs = 3
  MaxOps = 1
  Shape = "moved"
  Mode = "graph"
  NaNVal = 999
  AsCodedCollapse = FALSE
  AsCodedEdgeDelta = FALSE
  AsCodedNewEdge = FALSE
  ConcatKey <- ConcatKeyImpl
INVARIANTS MoveDump
