-------------------------- MODULE Trace_Concurrent --------------------------
(***************************************************************************)
(* Role 3 for C20: validates histories recorded from concurrent clients of  *)
(* a real instance.  Events carry a process-wide atomic sequence number:    *)
(*   Call(c, op, kind, id, ts)   before the request is sent                 *)
(*   Ret(c, op, ok, res)         after the reply was received               *)
(*   Final(st, hashOK, stopOK, reopenOK, races)                             *)
(* The acceptance conditions are Concurrent!ReadOK (TLC has checked that a  *)
(* linearisable last-write-wins store always meets them) plus: every call   *)
(* returned and was answered, the final content is the newest acknowledged  *)
(* write per identity, hashes are consistent, no data race was reported,    *)
(* the instance stopped and its file re-opened with the same content.       *)
(***************************************************************************)
EXTENDS Integers, Sequences, FiniteSets, TLC, Json

Trace == ndJsonDeserialize("trace.ndjson")
Idents == {Trace[i].id : i \in {j \in 1..Len(Trace) : Trace[j].ev = "Call" /\ Trace[j].kind = "write"}}
Clients == {Trace[i].c : i \in {j \in 1..Len(Trace) : Trace[j].ev = "Call"}}

VARIABLES l, ackedMax, called, pend, lastRead
tvars == <<l, ackedMax, called, pend, lastRead>>

Idle == [kind |-> "idle", id |-> "", ts |-> 0, floor |-> [i \in Idents |-> 0]]
TraceInit == /\ l = 1 /\ ackedMax = [i \in Idents |-> 0] /\ called = [i \in Idents |-> {0}]
             /\ pend = [c \in Clients |-> Idle] /\ lastRead = [c \in Clients |-> [i \in Idents |-> 0]]
Ev == Trace[l]
IsEvent(e) == l <= Len(Trace) /\ Ev.ev = e /\ l' = l + 1

Reset == /\ IsEvent("Reset")
         /\ ackedMax' = [i \in Idents |-> 0] /\ called' = [i \in Idents |-> {0}]
         /\ pend' = [c \in Clients |-> Idle] /\ lastRead' = [c \in Clients |-> [i \in Idents |-> 0]]

Call == /\ IsEvent("Call") /\ pend[Ev.c].kind = "idle"
        /\ pend' = [pend EXCEPT ![Ev.c] = [kind |-> Ev.kind, id |-> Ev.id, ts |-> Ev.ts, floor |-> ackedMax]]
        /\ called' = IF Ev.kind = "write" THEN [called EXCEPT ![Ev.id] = @ \cup {Ev.ts}] ELSE called
        /\ UNCHANGED <<ackedMax, lastRead>>

ResOf(i) == IF i \in DOMAIN Ev.res THEN Ev.res[i] ELSE -1     \* -1: identity not part of this read
Ret == /\ IsEvent("Ret") /\ pend[Ev.c].kind # "idle"
       /\ Ev.ok                                                 \* every request is answered (without error)
       /\ IF pend[Ev.c].kind = "write"
          THEN /\ ackedMax' = [ackedMax EXCEPT ![pend[Ev.c].id] = IF @ < pend[Ev.c].ts THEN pend[Ev.c].ts ELSE @]
               /\ UNCHANGED lastRead
          ELSE IF pend[Ev.c].kind = "read"
          THEN /\ \A i \in Idents : ResOf(i) >= 0 =>
                     /\ ResOf(i) >= pend[Ev.c].floor[i]         \* acknowledged writes are visible
                     /\ ResOf(i) >= lastRead[Ev.c][i]           \* successive reads never go back
                     /\ ResOf(i) \in called[i]                  \* only what somebody wrote
               /\ lastRead' = [lastRead EXCEPT ![Ev.c] = [i \in Idents |-> IF ResOf(i) >= 0 THEN ResOf(i) ELSE @[i]]]
               /\ UNCHANGED ackedMax
          ELSE UNCHANGED <<ackedMax, lastRead>>                 \* verify: answered, no hash failure (ok)
       /\ pend' = [pend EXCEPT ![Ev.c] = Idle]
       /\ UNCHANGED called

Final == /\ IsEvent("Final")
         /\ \A c \in Clients : pend[c].kind = "idle"            \* every call returned
         /\ \A i \in Idents : i \in DOMAIN Ev.st => Ev.st[i] = ackedMax[i]   \* some serial order of the acknowledged writes (LWW)
         /\ Ev.hashOK /\ Ev.stopOK /\ Ev.reopenOK /\ Ev.races = 0
         /\ UNCHANGED <<ackedMax, called, pend, lastRead>>

TraceNext == Reset \/ Call \/ Ret \/ Final
TraceSpec == TraceInit /\ [][TraceNext]_tvars
TraceAccepted ==
    LET d == TLCGet("stats").diameter - 1
    IN IF d = Len(Trace) THEN TRUE
       ELSE PrintT(<<"TRACE-REJECTED", d + 1, Trace[d + 1]>>) /\ FALSE
=============================================================================
