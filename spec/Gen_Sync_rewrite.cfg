SPECIFICATION GenSpec
CONSTANTS
  Idents <- GenIdents
  Edges <- GenEdges
  ParentOf <- GenParent
  Fresh <- GenFresh
  Focus = "rewrite"
  MaxWrites = 3
  MaxOutages = 1
  AsCoded = FALSE
INVARIANTS Dump
