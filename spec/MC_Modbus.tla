----------------------------- MODULE MC_Modbus -----------------------------
(* Role 1: C18/C19 consequences on every request of the model domain.        *)
(* Role 2: print, per request, the set of acceptable responses and the       *)
(* register file afterwards; the Go driver replays each request into the     *)
(* real PDU.ProcessRequest on a real modbus.Regs.                            *)
EXTENDS Modbus, Json, SequencesExt

CONSTANTS FCs, Addrs, Qtys, LenClasses, MapNames

Content(a) == (a * 40503 + 12345) % 65536
Dense(n) == [a \in 0..n |-> Content(a)]
NoVal == [a \in {} |-> "x"]

MapRegs(m) ==
    CASE m = "empty"    -> [a \in {} |-> 0]
      [] m = "sparse"   -> (0 :> 42435 @@ 2 :> 3855)
      [] m = "dense4"   -> Dense(4)
      [] m = "dense130" -> Dense(130)
      [] m = "dense300" -> Dense(300)
      [] m = "valid"    -> Dense(4)
      [] m = "top"      -> (0 :> 4660 @@ 65534 :> 22136 @@ 65535 :> 39612)
      [] m = "coiltop"  -> (0 :> 65535 @@ 4095 :> 43981)
MapVal(m) == IF m = "valid" THEN (1 :> "even" @@ 2 :> "lt256") ELSE NoVal

Pattern(n) == [i \in 1..n |-> (i * 37 + 11) % 256]
Min2(a, b) == IF a < b THEN a ELSE b

ReqBytes(fc, a, q, lc) ==
    LET body == ReqData(a, q) IN
    IF lc = "empty" THEN <<>>
    ELSE IF fc \notin {15, 16} THEN
        CASE lc = "exact" -> body
          [] lc = "short" -> SubSeq(body, 1, 3)
          [] lc = "long"  -> body \o <<171>>
          [] OTHER        -> body
    ELSE LET n  == IF fc = 15 THEN CeilDiv8(q) ELSE 2 * q
             nb == Min2(n, 300)
             bc == n % 256
         IN CASE lc = "exact"   -> body \o <<bc>> \o Pattern(nb)
              [] lc = "short"   -> IF nb = 0 THEN body ELSE body \o <<bc>> \o Pattern(nb - 1)
              [] lc = "long"    -> body \o <<bc>> \o Pattern(nb + 1)
              [] lc = "bcwrong" -> body \o <<(bc + 1) % 256>> \o Pattern(nb)

VARIABLE c   \* the case: [fc, a, q, lc, map]
Init == \E fc \in FCs, a \in Addrs, q \in Qtys, lc \in LenClasses, m \in MapNames :
            /\ (lc = "bcwrong" => fc \in {15, 16})
            /\ c = [fc |-> fc, a |-> a, q |-> q, lc |-> lc, map |-> m]
Next == UNCHANGED c
Spec == Init /\ [][Next]_c

D == ReqBytes(c.fc, c.a, c.q, c.lc)
R == MapRegs(c.map)
V == MapVal(c.map)
HasFixed == Len(D) >= MinLen(c.fc)

\* C18 on the model
Pure == ReadsPure(R, V, c.fc, D)
Atomic == SingleWriteAtomic(R, V, c.fc, D)
WellFormed == (Known(c.fc) /\ HasFixed) => ResponseWellFormed(R, V, c.fc, D)
NeverEmpty == Process(R, V, c.fc, D).resps # {}
\* a normal response is only ever acceptable for a request without faults
NormalOnlyIfClean ==
    (Known(c.fc) /\ HasFixed /\ \E r \in Process(R, V, c.fc, D).resps : r.kind = "normal")
        => (Faults(R, V, c.fc, D) = {} \/ OnlyTrailing(R, V, c.fc, D))
\* C19 on the model: what the client API returns is what the server holds
EndToEnd ==
    (c.lc = "exact" /\ c.fc \in {1, 2}) => EndToEndBits(R, c.fc, c.a, c.q)
EndToEndR ==
    (c.lc = "exact" /\ c.fc \in {3, 4}) => EndToEndRegs(R, c.fc, c.a, c.q)
Conv == \A h \in {0, 1, 32767}, l \in {0, 1, 32767, 32768, 65535} : ConvInverse(h, l)

\* register file as a list of <<addr, word>> (only what differs from the map's start is needed,
\* but the whole file is small)
Changed(regs2) == SetToSeq({<<a, regs2[a]>> : a \in {x \in DOMAIN R : regs2[x] # R[x]}})

Dump ==
    LET o == Process(R, V, c.fc, D)
    IN PrintT(ToJson([fc |-> c.fc, data |-> D, map |-> c.map, a |-> c.a, q |-> c.q, lc |-> c.lc,
                      resps |-> SetToSeq(o.resps), writes |-> Changed(o.regs),
                      partial |-> o.partial, lo |-> o.lo, hi |-> o.hi]))

\* the maps themselves, printed once (the driver builds modbus.Regs from this)
MapDump == [m \in MapNames |->
              [regs |-> SetToSeq({<<a, MapRegs(m)[a]>> : a \in DOMAIN MapRegs(m)}),
               val |-> SetToSeq({<<a, MapVal(m)[a]>> : a \in DOMAIN MapVal(m)})]]
ASSUME PrintT(ToJson([maps |-> MapDump]))
=============================================================================
