SPECIFICATION FairSpec
CONSTANTS
  Keys = {"R-C1", "G-C1", "G-C2"}
  MaxEnv = 4
  AsCodedScan = TRUE
  AsCodedSubscribe = FALSE
INVARIANTS TypeOK
PROPERTIES Quiesce
