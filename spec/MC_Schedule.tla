---------------------------- MODULE MC_Schedule ----------------------------
(* Role 1 (model check Active = ImplActive) and role 2 (generate the oracle *)
(* table for the real schedule.activeForTime) for Schedule.tla.  One state  *)
(* per schedule so that the 16 TLC workers share the table.                 *)
EXTENDS Schedule, Json, SequencesExt

CONSTANTS Mins, WdSets, DateSets, W0s, Days

VARIABLE s
vars == <<s>>

Init == \E sm \in Mins, em \in Mins, wds \in WdSets, dates \in DateSets, w0 \in W0s :
            s = Sched(sm, em, wds, dates, w0)
Next == UNCHANGED s
Spec == Init /\ [][Next]_vars

\* C14 on the model: the operational construction agrees with the statement.
Agree == \A t \in Instants(s, Days) : Active(s, t) = ImplActive(s, t)

\* sanity (non-vacuity): windows are never empty and never longer than a day
WindowSane == \A D \in Days : /\ WindowStart(s, D) < WindowEnd(s, D)
                              /\ WindowEnd(s, D) - WindowStart(s, D) <= DaySec

\* Role 2: one JSON line per schedule: the instants (ascending) and the
\* predicted answer for each.
SortedSeq(S) == SetToSortSeq(S, LAMBDA x, y : x < y)
Dump ==
    LET ts == SortedSeq(Instants(s, Days))
    IN PrintT(ToJson([sm |-> s.sm, em |-> s.em, wds |-> SortedSeq(s.wds),
                      dates |-> SortedSeq(s.dates), w0 |-> s.w0,
                      ts |-> ts,
                      exp |-> [i \in 1..Len(ts) |-> Active(s, ts[i])]]))

MinsQ == {0, 1, 60, 719, 720, 1439}
WdAll == SUBSET (0..6)
WdQ == {{}, {0}, {1}, {2}, {3}, {4}, {5}, {6}, {1, 4}, 0..6}
DatesAll == SUBSET {0, 1, 2}
=============================================================================
