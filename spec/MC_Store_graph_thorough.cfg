SPECIFICATION Spec
CONSTANTS
  Nodes = {"A", "B", "C"}
  R = "R"
  MaxTs = 3
  MaxOps = 4
  Shape = "empty"
  Mode = "graph"
  NaNVal = 999
  AsCodedCollapse = FALSE
  AsCodedEdgeDelta = FALSE
  AsCodedNewEdge = FALSE
  ConcatKey <- ConcatKeyImpl
INVARIANTS NewestWins OneRowPerIdentity HashOK AcyclicInv RootNeverDeleted RebroadcastExact RefusedLeavesNoTrace ReadsAgree MovesAtomic MirrorsAtomic DupTrees
VIEW View
