SPECIFICATION Spec
CONSTANTS
  AsCodedEmpty = TRUE
  MaxSteps = 2
  Seqs = {0, 7, 255}
INVARIANTS EveryValidAcked
VIEW View
