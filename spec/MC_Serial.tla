------------------------------ MODULE MC_Serial ------------------------------
(* Sessions of the serial link (Serial!Step): role 1 checks the protocol's promises in every       *)
(* reachable host state for every step; role 2 prints sessions with the predicted observations.    *)
EXTENDS Serial, Json

CONSTANTS MaxSteps, Seqs

TypeSets == {<<"value">>, <<"value", "temp">>, <<"description">>, <<"description", "value">>, <<"debug">>}
DevOps == {[k |-> kd, seq |-> q, types |-> ts] : kd \in {"pts"}, q \in Seqs, ts \in {<<"value">>, <<"value", "temp">>}}
          \cup {[k |-> kd, seq |-> q, types |-> <<>>] : kd \in {"empty", "bad", "short", "hr", "badhr"}, q \in Seqs}
BusOps == {[k |-> "write", seq |-> 0, types |-> ts] : ts \in TypeSets}
Ops == DevOps \cup BusOps

VARIABLES host, hist
svars == <<host, hist>>
Init == host = InitHost /\ hist = <<>>
Next == /\ Len(hist) < MaxSteps
        /\ \E op \in Ops : LET o == Step(host, op) IN
              /\ host' = o.st
              /\ hist' = Append(hist, [op |-> op, frames |-> o.frames, pubs |-> o.pubs,
                                        err |-> o.st.err, rx |-> o.st.rx, tx |-> o.st.tx, hrRx |-> o.st.hrRx])
Spec == Init /\ [][Next]_svars
View == host

Promises == \A op \in Ops : /\ DamagedIsSilent(host, op) /\ AckedOnce(host, op)
                            /\ NoEcho(host, op) /\ Consecutive(host, op)
\* with the document's reading of empty packets (AsCodedEmpty = FALSE) every valid packet is acknowledged
EveryValidAcked == \A op \in DevOps : op.k \in {"pts", "empty"} => Step(host, op).frames = <<Ack(op.seq)>>
Dump == Len(hist) = MaxSteps => PrintT(ToJson(hist))
=============================================================================
