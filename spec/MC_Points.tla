----------------------------- MODULE MC_Points -----------------------------
(* Role 1: C10 laws for every value / ordered pair of every field kind, both  *)
(* map iteration orders; C11 totality of Dec on the whole point alphabet.     *)
(* Role 2: print every case with the predicted points / outcome.              *)
EXTENDS Points, Json

CONSTANTS C11Keys, C11Tombs, C11MaxLen, DoPairs

TombsAll == {0, 1, 2, 3, -1, -2}
TombsSome == {0, 1, 3, -1, -2}
TombsFew == {0, 1, -1}

VARIABLE c
\* priors used for C11: zero value and one populated value per kind
PriorsOf(kind) ==
    CASE kind = "scalar"  -> {0, 2}
      [] kind = "ptr"     -> {<<>>, <<2>>}
      [] kind = "slice"   -> {<<>>, <<1>>, <<1, 2>>, <<1, 2, 1>>}
      [] kind = "pslice"  -> {<<>>, <<1, Nil, 2>>}
      [] kind = "array"   -> {<<0, 0>>, <<1, 2>>}
      [] kind = "map"     -> {[k \in {} |-> 0], [k \in {"a", "0"} |-> 1]}
      [] kind = "struct"  -> {[f \in StructFields |-> 0], [f \in StructFields |-> 2]}
      [] kind = "pstruct" -> {<<>>, <<[f \in StructFields |-> 2]>>}
      [] kind = "pstructp" -> {<<>>, <<[f \in StructFields |-> IF f = "y" THEN <<2>> ELSE 2]>>}
C11Pts == {Pt(k, v, t) : k \in C11Keys, v \in {0, 1}, t \in C11Tombs}
C11Lists == UNION {[1..n -> C11Pts] : n \in 1..C11MaxLen}
\* batches with several points for one index / field (repeated deletions, delete then set, both
\* spellings of index 0) over a small alphabet, for the kinds where the order and multiplicity matter
MultiPts == {Pt(k, 1, t) : k \in {"", "0", "1"}, t \in {0, 1, 3}}
MultiLists == UNION {[1..n -> MultiPts] : n \in 2..3}
MultiKinds == {"slice", "pslice", "array", "map"}

Init == \/ \E kind \in Kinds, rev \in BOOLEAN : \E v \in ValuesOf(kind) :
              c = [t |-> "rt", kind |-> kind, rev |-> rev, a |-> v]
        \/ DoPairs /\ \E kind \in Kinds, rev \in BOOLEAN : \E a \in ValuesOf(kind), b \in ValuesOf(kind) :
              c = [t |-> "dm", kind |-> kind, rev |-> rev, a |-> a, b |-> b]
        \/ \E kind \in Kinds : \E prior \in PriorsOf(kind), pts \in C11Lists :
              c = [t |-> "dec", kind |-> kind, prior |-> prior, pts |-> pts]
        \/ \E kind \in MultiKinds : \E prior \in PriorsOf(kind), pts \in MultiLists :
              c = [t |-> "dec", kind |-> kind, prior |-> prior, pts |-> pts]
Next == UNCHANGED c
Spec == Init /\ [][Next]_c

\* C10
LawRoundTrip == c.t = "rt" => RoundTrip(c.kind, c.a, c.rev)
LawDiffMerge == c.t = "dm" => DiffMerge(c.kind, c.a, c.b, c.rev)
\* the points are independent of the map iteration order up to permutation
\* C11 (meaningful with AsCoded = FALSE; with AsCoded = TRUE it must FAIL - see cfg)
Total == c.t = "dec" => Dec(c.kind, c.prior, c.pts)[1] \in {"ok", "err"}
NoPanic == c.t = "dec" => Dec(c.kind, c.prior, c.pts)[1] # "panic"

Dump ==
    PrintT(ToJson(
      IF c.t = "rt" THEN [t |-> "rt", kind |-> c.kind, a |-> <<c.a>>, pts |-> Enc(c.kind, c.a, c.rev)]
      ELSE IF c.t = "dm" THEN [t |-> "dm", kind |-> c.kind, a |-> <<c.a>>, b |-> <<c.b>>,
                               pts |-> Diff(c.kind, c.a, c.b, c.rev)]
      ELSE LET r == Dec(c.kind, c.prior, c.pts)
           IN [t |-> "dec", kind |-> c.kind, prior |-> <<c.prior>>, pts |-> c.pts,
               out |-> r[1], v |-> <<r[2]>>]))
=============================================================================
