SPECIFICATION Spec
CONSTANTS
  MaxConds = 1
  MaxBatches = 2
  MaxPts = 2
  CondMode = "all"
INVARIANTS C13
VIEW View
