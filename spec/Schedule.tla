------------------------------ MODULE Schedule ------------------------------
(***************************************************************************)
(* Schedule windows of the rule client (client/schedule.go), property C14.  *)
(*                                                                         *)
(* Time is counted in seconds from 00:00:00 UTC of an anchor day, "day 0". *)
(* A case fixes the weekday of day 0 (W0, Sunday = 0); the Go driver maps   *)
(* day 0 to real calendar dates with that weekday (week, month and year    *)
(* ends, leap days).                                                       *)
(*                                                                         *)
(* Two readings of the same property:                                      *)
(*   Active      declarative - exactly the statement of C14                *)
(*   ImplActive  operational - shaped like schedule.activeForTime          *)
(* TLC checks that they agree on every schedule and instant of the model,  *)
(* and the generator prints Active() as the oracle for the real function.  *)
(***************************************************************************)
EXTENDS Integers, Sequences, FiniteSets, TLC

DaySec == 86400

\* A schedule: start and end minute of day, weekday filter, date filter
\* (set of day indices), and the weekday of day 0.
Sched(sm, em, wds, dates, w0) ==
    [sm |-> sm, em |-> em, wds |-> wds, dates |-> dates, w0 |-> w0]

DayOf(t) == t \div DaySec
Weekday(s, D) == (s.w0 + D) % 7

Allowed(s, D) ==
    /\ (s.wds = {} \/ Weekday(s, D) \in s.wds)
    /\ (s.dates = {} \/ D \in s.dates)

WindowStart(s, D) == D * DaySec + s.sm * 60
WindowEnd(s, D)   == IF s.em > s.sm THEN D * DaySec + s.em * 60
                                    ELSE (D + 1) * DaySec + s.em * 60

\* ---- declarative (C14's statement) ----
\* A window is at most 24 h long, so only D = day(t) and D = day(t)-1 can
\* contain t; quantifying over a few more days costs nothing and keeps the
\* definition literally the property's.
Active(s, t) ==
    \E D \in (DayOf(t) - 2) .. (DayOf(t) + 1) :
        /\ Allowed(s, D)
        /\ WindowStart(s, D) <= t
        /\ t < WindowEnd(s, D)

\* ---- operational (as coded) ----
\* today's range; if the end is not after the start: today's range is
\* extended to tomorrow and a second range starts yesterday.  Both filters
\* look at the range's *start* day.
ImplRanges(s, t) ==
    LET d     == DayOf(t)
        start == d * DaySec + s.sm * 60
        end   == d * DaySec + s.em * 60
    IN  IF end > start
        THEN { <<start, end>> }
        ELSE { <<start, end + DaySec>>, <<start - DaySec, end>> }

ImplActive(s, t) ==
    \E r \in ImplRanges(s, t) :
        /\ Allowed(s, DayOf(r[1]))
        /\ r[1] <= t
        /\ t < r[2]

\* ---- instants examined for a schedule: every boundary +-1 s, midnight +-1 s,
\* and a mid-day instant, on each of the days in Days ----
SecsOfInterest(s) ==
    { x \in { 0, 1, DaySec - 1, 43217,
              s.sm * 60 - 1, s.sm * 60, s.sm * 60 + 1,
              s.em * 60 - 1, s.em * 60, s.em * 60 + 1 } : x >= 0 /\ x < DaySec }

Instants(s, Days) == { d * DaySec + x : d \in Days, x \in SecsOfInterest(s) }

=============================================================================
