-------------------------------- MODULE Store --------------------------------
(***************************************************************************)
(* The node/edge/point store of simpleiot (store/sqlite.go, store/store.go, *)
(* data/point.go): last-write-wins merge of points per identity, batch      *)
(* collapse, key normalisation, guards/refusals, the XOR Merkle hash kept    *)
(* incrementally on every edge, and the rebroadcast of accepted writes on    *)
(* the subjects of all ancestors.  Properties C01 C03 C05 C06; sequential    *)
(* oracle of C20; building block of C02, C04, C07, C15.                      *)
(*                                                                         *)
(* The module is purely functional: a store is a record                      *)
(*     [npts, epts, edges, hash, root]                                       *)
(* and Apply(s, op) returns [s, reply, out] - the store after the request,   *)
(* the reply ("" = acknowledged, "err" = refused) and the set of rebroadcast *)
(* subjects.  State machines (MC_Store, Sync, Concurrent, ...) wrap it.      *)
(*                                                                         *)
(* Graph: edges are pairs <<up, down>>; the instance root hangs below the    *)
(* sentinel "root".  A point is [type, key, ts, val, tomb, org]; identity =  *)
(* <<type, NormKey(key)>> (an empty key means key "0").  The deleted flag of *)
(* an edge is its "tombstone" edge point (odd value = deleted).               *)
(*                                                                         *)
(* Hash algebra: a CRC-32 is the atom <<type, key, ts, val>> (exactly the    *)
(* fields the documented checksum covers) and XOR is symmetric difference    *)
(* of atom sets - the free Boolean group: the real algebra up to CRC         *)
(* collisions, self-inverse law included.                                    *)
(*                                                                         *)
(* Each property has a declarative and an operational reading and TLC        *)
(* checks that they agree in every reachable state:                          *)
(*   CalcHash (documented definition)  vs  deltas pushed up every path       *)
(*   ExpectedSubjects (closure)        vs  Publish (recursive republish)     *)
(*   Newest (max ts of delivered)      vs  collapse-then-compare merge       *)
(*                                                                         *)
(* Deviations of the pinned tree are named switches (AsCoded...); with all   *)
(* of them FALSE this module is the intended design.                         *)
(***************************************************************************)
EXTENDS Integers, Sequences, FiniteSets, TLC

CONSTANTS
    NaNVal,              \* the value standing for not-a-number
    AsCodedCollapse,     \* batch collapse keyed by the raw Type+Key concatenation (F1a, F1b)
    AsCodedEdgeDelta,    \* edge-point hash delta applied to every edge pointing at the node (F3a)
    AsCodedNewEdge,      \* new edge: hash lacks the hashes of already existing child edges (F3b)
    ConcatKey(_)         \* as-coded collapse slot of a point (the string Type+Key)

Sentinel == "root"

Pt(type, key, ts, val, tomb, org) ==
    [type |-> type, key |-> key, ts |-> ts, val |-> val, tomb |-> tomb, org |-> org]
NormKey(k) == IF k = "" THEN "0" ELSE k
Ident(p) == <<p.type, NormKey(p.key)>>
Norm(p) == [p EXCEPT !.key = NormKey(p.key)]
Atom(p) == <<p.type, NormKey(p.key), p.ts, p.val>>

\* ---------------------------------------------------------------- little helpers
SeqToSet(s) == {s[i] : i \in 1..Len(s)}
SymDiff(A, B) == (A \ B) \cup (B \ A)
RECURSIVE XorSeq(_)
XorSeq(s) == IF s = <<>> THEN {} ELSE SymDiff(Head(s), XorSeq(Tail(s)))
SetToSeqAny(S) == LET RECURSIVE f(_)
                      f(T) == IF T = {} THEN <<>> ELSE LET x == CHOOSE y \in T : TRUE IN <<x>> \o f(T \ {x})
                  IN f(S)
\* XOR of a bag given as a function over an index set
XorOver(I, f(_)) == LET is == SetToSeqAny(I) IN XorSeq([k \in 1..Len(is) |-> f(is[k])])

\* ---------------------------------------------------------------- point merge (C01)
\* Intended: newest point per *normalised* identity within the batch (ties: the
\* later entry; C01's domain has distinct timestamps per identity, ties only
\* arise for a point sent twice).
Collapse(pts) ==
    {pts[i] : i \in {k \in 1..Len(pts) :
        \A j \in 1..Len(pts) : Ident(pts[j]) = Ident(pts[k]) =>
            (pts[j].ts < pts[k].ts \/ (pts[j].ts = pts[k].ts /\ j <= k))}}
\* As coded: slots are the raw string Type+Key, so ("xb","") and ("x","b") share
\* one and "" / "0" do not.
CollapseAsCoded(pts) ==
    {pts[i] : i \in {k \in 1..Len(pts) :
        \A j \in 1..Len(pts) : ConcatKey(pts[j]) = ConcatKey(pts[k]) =>
            (pts[j].ts < pts[k].ts \/ (pts[j].ts = pts[k].ts /\ j <= k))}}
Coll(pts) == IF AsCodedCollapse THEN CollapseAsCoded(pts) ELSE Collapse(pts)

\* merge a batch into a stored set S (at most one point per identity in S).
\* A surviving point is written iff no stored point of its identity is newer.
\* Returns <<new set, delta atoms>>.
Merge(S, pts) ==
    LET c == Coll(pts)
        written == {p \in c : \A o \in S : Ident(o) = Ident(p) => o.ts <= p.ts}
        removed == {o \in S : \E p \in written : Ident(p) = Ident(o)}
        \* (as coded, two points of one identity may both be written; the row then
        \*  holds one of them - the model keeps the newer; C01 replay decides)
        keep == {p \in written : \A q \in written : Ident(q) = Ident(p) => q.ts <= p.ts}
        S2 == (S \ removed) \cup {Norm(p) : p \in keep}
        delta == SymDiff({Atom(o) : o \in removed}, {Atom(p) : p \in keep})
    IN <<S2, delta>>
\* declarative: what a read must return after a set D of delivered points
Newest(D) == {Norm(p) : p \in {q \in D : \A r \in D : Ident(r) = Ident(q) => r.ts <= q.ts}}

\* ---------------------------------------------------------------- graph
UpOf(E, n) == {e[1] : e \in {x \in E : x[2] = n}}
DownOf(E, n) == {e[2] : e \in {x \in E : x[1] = n}}
DeletedIn(s, e) == \E p \in s.epts[e] : p.type = "tombstone" /\ p.val % 2 = 1
LiveUpOf(s, n) == {u \in UpOf(s.edges, n) : ~DeletedIn(s, <<u, n>>)}

RECURSIVE ClosureUp(_, _, _)
\* strict ancestors of the nodes in S (sentinel included); live = through non-deleted edges only
ClosureUp(s, S, live) ==
    LET step(x) == IF live THEN LiveUpOf(s, x) ELSE UpOf(s.edges, x)
        S2 == S \cup UNION {step(x) : x \in S}
    IN IF S2 = S THEN S ELSE ClosureUp(s, S2, live)
Anc(s, n, live) == ClosureUp(s, IF live THEN LiveUpOf(s, n) ELSE UpOf(s.edges, n), live)
NodesOf(s) == {e[2] : e \in s.edges} \cup {e[1] : e \in s.edges}
Acyclic(s) == \A n \in NodesOf(s) : n \notin Anc(s, n, FALSE)

\* ---------------------------------------------------------------- Merkle hash (C03)
NodeAtoms(s, n) == {Atom(p) : p \in (IF n \in DOMAIN s.npts THEN s.npts[n] ELSE {})}
EdgeAtoms(s, e) == {Atom(p) : p \in s.epts[e]}
\* declarative: the documented definition (docs/ref/sync.md).  Only meaningful on
\* acyclic graphs.
RECURSIVE CalcHash(_, _)
CalcHash(s, e) ==
    LET kids == SetToSeqAny(DownOf(s.edges, e[2]))
    IN XorSeq(<<NodeAtoms(s, e[2]), EdgeAtoms(s, e)>>
              \o [i \in 1..Len(kids) |-> CalcHash(s, <<e[2], kids[i]>>)])
HashConsistent(s) == \A e \in s.edges : s.hash[e] = CalcHash(s, e)

\* operational: push a delta up from node n: every edge pointing at n, then
\* recursively from each parent - once per path (cache semantics of
\* updateHashHelper).  E: edge set, h: hash function over E.
RECURSIVE PushUp(_, _, _, _)
PushUp(E, h, n, delta) ==
    LET es == SetToSeqAny({e \in E : e[2] = n})
        RECURSIVE go(_, _)
        go(hh, i) == IF i > Len(es) THEN hh
                     ELSE LET e == es[i]
                              h1 == [hh EXCEPT ![e] = SymDiff(@, delta)]
                          IN go(IF e[1] = Sentinel THEN h1 ELSE PushUp(E, h1, e[1], delta), i + 1)
    IN go(h, 1)
\* the one edge e, then everything above its parent
PushUpEdge(E, h, e, delta) ==
    LET h1 == [h EXCEPT ![e] = SymDiff(@, delta)]
    IN IF e[1] = Sentinel THEN h1 ELSE PushUp(E, h1, e[1], delta)

\* ---------------------------------------------------------------- rebroadcast (C06)
\* operational: processPointsUpstream / processEdgePointsUpstream
RECURSIVE Publish(_, _, _, _)
Publish(s, a, tail, live) ==
    {<<a>> \o tail} \cup
    (IF a = Sentinel THEN {}
     ELSE UNION {Publish(s, u, tail, live) : u \in (IF live THEN LiveUpOf(s, a) ELSE UpOf(s.edges, a))})
\* declarative: the node itself and every ancestor (live edges for node points,
\* any edges for edge points), the root sentinel being the topmost ancestor
ExpectedSubjects(s, n, tail, live) == {<<a>> \o tail : a \in {n} \cup Anc(s, n, live)}

\* ---------------------------------------------------------------- requests
\* op: [kind |-> "np", n, b]  or  [kind |-> "ep", n, p, b]
\* batch b: [pts |-> sequence of points, nodeType |-> "" or a node type]
HasNaN(b) == \E i \in 1..Len(b.pts) : b.pts[i].val = NaNVal
Result(s, reply, out) == [s |-> s, reply |-> reply, out |-> out]
Refused(s) == Result(s, "err", {})

NodePts(s, n) == IF n \in DOMAIN s.npts THEN s.npts[n] ELSE {}

ApplyNodePoints(s, n, b) ==
    IF HasNaN(b) THEN Refused(s)
    ELSE LET m == Merge(NodePts(s, n), b.pts)
             s2 == [s EXCEPT !.npts = [x \in (DOMAIN s.npts) \cup {n} |-> IF x = n THEN m[1] ELSE s.npts[x]],
                             !.hash = PushUp(s.edges, s.hash, n, m[2])]
         IN Result(s2, "", Publish(s2, n, <<n>>, TRUE))

WouldCycle(s, n, p) == p = n \/ n \in Anc(s, p, FALSE)

ApplyEdgePoints(s, n, p, b) ==
    LET e == <<p, n>>
        isNew == e \notin s.edges
        tombUp == \E i \in 1..Len(b.pts) : b.pts[i].type = "tombstone" /\ b.pts[i].val > 0
    IN
    IF \/ n = p
       \/ (n = s.root /\ tombUp)
       \/ HasNaN(b)
       \/ (isNew /\ b.nodeType = "")
       \/ (isNew /\ WouldCycle(s, n, p))
    THEN Refused(s)
    ELSE LET m == Merge(IF isNew THEN {} ELSE s.epts[e], b.pts)
             E2 == s.edges \cup {e}
             epts2 == [x \in E2 |-> IF x = e THEN m[1] ELSE s.epts[x]]
             h0 == [x \in E2 |-> IF x = e /\ isNew THEN {} ELSE s.hash[x]]
             kids == SetToSeqAny(DownOf(s.edges, n))
             \* what the written edge gains
             delta == IF ~isNew THEN m[2]
                      ELSE IF AsCodedNewEdge THEN SymDiff(m[2], NodeAtoms(s, n))
                      ELSE XorSeq(<<m[2], NodeAtoms(s, n)>> \o [i \in 1..Len(kids) |-> s.hash[<<n, kids[i]>>]])
             h2 == IF AsCodedEdgeDelta THEN PushUp(E2, h0, n, delta) ELSE PushUpEdge(E2, h0, e, delta)
             s2 == [s EXCEPT !.edges = E2, !.epts = epts2, !.hash = h2,
                             !.npts = [x \in (DOMAIN s.npts) \cup {n} |-> NodePts(s, x)]]
         IN Result(s2, "", Publish(s2, n, <<n, p>>, FALSE))

Apply(s, op) ==
    IF op.kind = "np" THEN ApplyNodePoints(s, op.n, op.b) ELSE ApplyEdgePoints(s, op.n, op.p, op.b)

\* ---------------------------------------------------------------- composite client operations
\* client.MoveNode / client.MirrorNode: sequences of acknowledged edge writes (C05 quantifies over
\* moves and mirrors too: refused = error and no trace).  A move creates the new edge (tombstone 0
\* and the node's type) and then deletes the old one.
\*   intended  the move is refused up front unless the node hangs below the old parent and is
\*             not the instance root - then only the first write can fail, and it leaves nothing
\*   asCoded   no such check: with a wrong old parent (or the root) the second write is refused
\*             after the first one has been stored and rebroadcast
NodeExists(s, n) == \E e \in s.edges : e[2] = n
TombBatch(ts, v, nt) == [pts |-> <<Pt("tombstone", "0", ts, v, 0, "")>>, nodeType |-> nt]
Mirror(s, n, new, ts, nt) ==
    IF ~NodeExists(s, n) THEN Refused(s) ELSE ApplyEdgePoints(s, n, new, TombBatch(ts, 0, nt))
Move(s, n, old, new, ts, nt, asCoded) ==
    IF new = old \/ ~NodeExists(s, n) THEN Refused(s)
    ELSE IF ~asCoded /\ (<<old, n>> \notin s.edges \/ old = Sentinel) THEN Refused(s)
    ELSE LET r1 == ApplyEdgePoints(s, n, new, TombBatch(ts, 0, nt))
         IN IF r1.reply = "err" THEN Refused(s)
            ELSE LET r2 == ApplyEdgePoints(r1.s, n, old, TombBatch(ts + 1, 1, ""))
                 IN IF r2.reply = "err" THEN Result(r1.s, "err", r1.out)
                    ELSE Result(r2.s, "", r1.out \cup r2.out)
MoveAllOrNothing(s, n, old, new, ts, nt, asCoded) ==
    LET r == Move(s, n, old, new, ts, nt, asCoded) IN r.reply = "err" => (r.s = s /\ r.out = {})

\* ---- client.DuplicateNode(n, new): a copy of the live subtree below n, hung below `new`; every visit of a
\* node on the walk makes a new node (a node below a diamond is copied once per path), so the copy is the
\* tree of downward paths through live edges that start at n.  Beyond the listed properties.
\*   refused   when n has no live placement
\*   intended  the subtree as it is when the call is made
\*   as coded  the children of a node are read when the walk arrives there: if the new parent lies strictly
\*             below n the walk meets its own copies and never ends (DupDiverges) - an observation, not a
\*             finding of a listed property
LiveDown(s, n) == {c \in DownOf(s.edges, n) : ~DeletedIn(s, <<n, c>>)}
LivePlacements(s, n) == {u \in UpOf(s.edges, n) : ~DeletedIn(s, <<u, n>>)}
RECURSIVE PathsFrom(_, _)
PathsFrom(s, p) == {p} \cup UNION {PathsFrom(s, Append(p, c)) : c \in LiveDown(s, p[Len(p)])}
DupRefused(s, n) == LivePlacements(s, n) = {}
RECURSIVE LiveBelowSet(_, _)
LiveBelowSet(s, S) == LET S2 == S \cup UNION {LiveDown(s, x) : x \in S} IN IF S2 = S THEN S ELSE LiveBelowSet(s, S2)
DupDiverges(s, n, new) == new # n /\ new \in LiveBelowSet(s, {n})
\* the copy as a set of paths; the parent of the copy for path p is the copy for Front(p), that of <<n>> is `new`
DupCopies(s, n) == PathsFrom(s, <<n>>)
\* the copy is a tree: as many nodes as paths, one parent each, and it is finite (the graph is acyclic)
DupIsTree(s, n) == \A p \in DupCopies(s, n) : Len(p) >= 1 /\ p[1] = n /\ (Len(p) > 1 => SubSeq(p, 1, Len(p) - 1) \in DupCopies(s, n))

\* ---------------------------------------------------------------- verification and repair
\* admin.storeVerify / admin.storeMaint (verifyNodeHashes).  C03's last clause says a verification
\* finds nothing on any store the write path has produced; the rest is beyond the listed properties.
\* What the walk computes for an edge: its points and the STORED hashes of its child edges
\* (data.NodeEdge.CalcHash over the children as read from the store).
LocalHash(s, e) ==
    LET kids == SetToSeqAny(DownOf(s.edges, e[2]))
    IN XorSeq(<<NodeAtoms(s, e[2]), EdgeAtoms(s, e)>> \o [i \in 1..Len(kids) |-> s.hash[<<e[2], kids[i]>>]])
\* what a verification reports
Mismatches(s) == {e \in s.edges : s.hash[e] # LocalHash(s, e)}
\* the repaired store: every hash is the documented function of the content below it
Repaired(s) == [s EXCEPT !.hash = [e \in s.edges |-> CalcHash(s, e)]]
\* one maintenance pass as coded: the walk lists a node's children (with their stored hashes) before
\* it descends into them, repairs them, and then computes the node's own hash from the list it read
\* before - so every edge gets LocalHash of the state the pass started from
MaintPass(s) == [s EXCEPT !.hash = [e \in s.edges |-> LocalHash(s, e)]]
RECURSIVE MaintTimes(_, _)
MaintTimes(s, k) == IF k = 0 THEN s ELSE MaintTimes(MaintPass(s), k - 1)
\* passes the as-coded maintenance needs (bounded by the number of edges + 1)
RECURSIVE PassesNeeded(_, _, _)
PassesNeeded(s, k, bound) == IF HashConsistent(s) \/ k >= bound THEN k ELSE PassesNeeded(MaintPass(s), k + 1, bound)

\* ---------------------------------------------------------------- reads
\* nodes.<parent>.<id> with options (node type filter, include deleted placements): which
\* placements a read returns (store.handleNodesRequest -> DbSqlite.getNodes).  Every placement
\* comes with the node's points, the edge's points and the edge's hash (C01, C03 observe through
\* this).  parent "root" names the instance root whatever id says; "all" is a wildcard on one side
\* only.  TypeOf(e) is the node type recorded on edge e when it was created.
ReadRefused(parent, id) == parent \in {"", "none"} \/ (parent = "all" /\ id \in {"all", ""})
ReadEdges(st, parent, id) ==
    CASE parent = "root"        -> {e \in st.edges : e[2] = st.root}
      [] parent = "all"         -> {e \in st.edges : e[2] = id}
      [] id \in {"all", ""}     -> {e \in st.edges : e[1] = parent}
      [] OTHER                  -> {e \in st.edges : e = <<parent, id>>}
Read(st, parent, id, typ, incDel, TypeOf(_)) ==
    {e \in ReadEdges(st, parent, id) : (typ = "" \/ TypeOf(e) = typ) /\ (incDel \/ ~DeletedIn(st, e))}
\* what clients do to enumerate the tree: start at the root, list children without the deleted
\* ones, repeat.  Declarative counterpart: the nodes connected to the root by live edges.
RECURSIVE Walk(_, _, _)
Walk(K, frontier, seen) ==      \* K[n]: what listing the children of n returns
    IF frontier = {} THEN seen
    ELSE LET kids == UNION {K[n] : n \in frontier} IN Walk(K, kids \ seen, seen \cup kids)
WalkFromRoot(st, TypeOf(_)) ==
    LET r == {e[2] : e \in Read(st, "root", "all", "", FALSE, TypeOf)}
        K == [n \in NodesOf(st) |-> {e[2] : e \in Read(st, n, "all", "", FALSE, TypeOf)}]
    IN Walk(K, r, r)
RECURSIVE LiveBelow(_, _)
LiveBelow(st, S) ==
    LET more == {e[2] : e \in {x \in st.edges : x[1] \in S /\ ~DeletedIn(st, x)}} \ S
    IN IF more = {} THEN S ELSE LiveBelow(st, S \cup more)
LiveNodes(st) == IF DeletedIn(st, <<Sentinel, st.root>>) THEN {} ELSE LiveBelow(st, {st.root})

\* a fresh store: root r below the sentinel
InitStore(r) ==
    [npts |-> [x \in {r} |-> {}],
     epts |-> [x \in {<<Sentinel, r>>} |-> {}],
     edges |-> {<<Sentinel, r>>},
     hash |-> [x \in {<<Sentinel, r>>} |-> {}],
     root |-> r]
=============================================================================
