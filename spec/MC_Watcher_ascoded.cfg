SPECIFICATION WSpec
CONSTANTS
  MaxWrites = 4
  AsCoded = TRUE
INVARIANTS Holds
