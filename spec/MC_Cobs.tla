------------------------------ MODULE MC_Cobs ------------------------------
(* Role 1: every interleaving of device-read sizes for every small frame     *)
(* sequence, with and without one damage event.  Role 2: print the cases     *)
(* (frames, wire, damage, Pre/Post counts) that the Go driver replays into   *)
(* the real CobsWrapper under *all* segmentations of the wire.               *)
EXTENDS Cobs, Json

CONSTANTS Bytes,      \* payload alphabet
          MaxFrames, MaxLen,
          WithDamage, \* BOOLEAN
          DmgVals     \* values a damaged / inserted byte may take

FramesOfLen(n) == [1..n -> Bytes]
FrameSet == UNION {FramesOfLen(n) : n \in 1..MaxLen}
FrameSeqs == UNION {[1..n -> FrameSet] : n \in 1..MaxFrames}

DamagesOf(w) ==
    IF ~WithDamage THEN {NoDamage}
    ELSE {NoDamage}
         \cup {[kind |-> "flip", i |-> i, v |-> v] : i \in 1..Len(w), v \in DmgVals}
         \cup {[kind |-> "drop", i |-> i, v |-> 0] : i \in 1..Len(w)}
         \cup {[kind |-> "ins", i |-> i, v |-> v] : i \in 1..(Len(w) + 1), v \in DmgVals}

Init ==
    /\ frames \in FrameSeqs
    /\ lead \in BOOLEAN
    /\ dmg \in DamagesOf(Wire(frames, lead))
    /\ (dmg.kind = "flip" => Wire(frames, lead)[dmg.i] # dmg.v)
    /\ wire = ApplyDamage(Wire(frames, lead), dmg)
    /\ pos = 0 /\ carry = <<>> /\ delivered = <<>>

Spec == Init /\ [][Next]_vars

\* ---- role 2: one line per case (initial states only)
GenInit == Init
GenNext == UNCHANGED vars
GenSpec == GenInit /\ [][GenNext]_vars
Dump == PrintT(ToJson([frames |-> frames, lead |-> lead,
                       clean |-> Wire(frames, lead), wire |-> wire,
                       dmg |-> dmg,
                       pre |-> PreCount(frames, lead, dmg),
                       post |-> PostCount(frames, lead, dmg)]))
=============================================================================
