------------------------------- MODULE Manager -------------------------------
(***************************************************************************)
(* The client manager (client/manager.go, client-state.go) - C07, C08.      *)
(*                                                                         *)
(* Store side (environment): the set `live` of placements <<parent, node>>  *)
(* of the managed node type that are connected to the root through live     *)
(* edges, groups or configured parent types, and for each a version         *)
(* `kidsVer` that counts changes of its child set.                          *)
(*                                                                         *)
(* Manager side, one action per critical section of manager.go:             *)
(*   NotifyScan   a node-type edge point went by on up.root.> -> scan       *)
(*   TimerScan    the periodic rescan                                       *)
(*   ScanBuild(k) scan found placement k without client state: read the     *)
(*                node's children and construct the client from them        *)
(*   Subscribe(k) ... then subscribe to the node's updates, read the        *)
(*                children again and stop the client at once if they are no *)
(*                longer the ones it was built from.  The environment can   *)
(*                act between the two steps (a child added there is         *)
(*                announced to nobody).                                     *)
(*   ScanStop(k)  scan found a client state whose placement is gone: stop   *)
(*   ClientSees(k) the client's own subscription sees a tombstone / node    *)
(*                type edge point on its node or a child: stop (restart)    *)
(*   Exited(k)    Run returned: client state deleted, rescan requested      *)
(*   StopManager / Returned                                                 *)
(*                                                                         *)
(* AsCodedScan: scan returns early when it finds no node of the type at     *)
(* all, so the last client of a type is never stopped by a scan (F7a).      *)
(* AsCodedSubscribe: no second look at the children after subscribing, so a *)
(* client built from a child set that changed in the window runs on with    *)
(* it (finding construct-races-change).  Both are FALSE for the fixed code. *)
(***************************************************************************)
EXTENDS Integers, Sequences, FiniteSets, TLC

CONSTANTS Keys,          \* candidate placements
          MaxEnv,        \* bound on environment steps
          AsCodedScan,
          AsCodedSubscribe

VARIABLES live,      \* SUBSET Keys: placements that must have a client
          kidsVer,   \* [Keys -> Nat]: version of the child set
          cs,        \* [Keys -> {"absent", "building", "running", "stopping"}]
          cfgVer,    \* [Keys -> Nat]: child-set version the running client was built from
          seen,      \* [Keys -> Nat]: newest child-set version the client's subscription has been told of
          told,      \* SUBSET Keys: clients whose subscription holds an unprocessed tombstone of their own edge
          scanReq,   \* a scan is pending
          stopping,  \* manager Stop was called
          returned,  \* manager Run returned
          envSteps
mvars == <<live, kidsVer, cs, cfgVer, seen, told, scanReq, stopping, returned, envSteps>>

Init == /\ live = {} /\ kidsVer = [k \in Keys |-> 0]
        /\ cs = [k \in Keys |-> "absent"] /\ cfgVer = [k \in Keys |-> 0] /\ seen = [k \in Keys |-> 0]
        /\ told = {} /\ scanReq = TRUE /\ stopping = FALSE /\ returned = FALSE /\ envSteps = 0

\* ---- environment
EnvCreate(k) ==   \* creation / mirror / undelete: carries a node-type point -> the manager is notified
    /\ envSteps < MaxEnv /\ ~stopping /\ k \notin live
    /\ live' = live \cup {k} /\ scanReq' = TRUE /\ envSteps' = envSteps + 1
    /\ UNCHANGED <<kidsVer, cs, cfgVer, seen, told, stopping, returned>>
EnvDelete(k) ==   \* tombstone on the node's own edge: the client's subscription sees it (ClientSees)
    /\ envSteps < MaxEnv /\ ~stopping /\ k \in live
    /\ live' = live \ {k} /\ envSteps' = envSteps + 1
    /\ told' = IF cs[k] = "running" THEN told \cup {k} ELSE told
    /\ UNCHANGED <<kidsVer, cs, cfgVer, seen, scanReq, stopping, returned>>
EnvDeleteAbove(S) ==  \* a group above is deleted: nobody is told; only a rescan can find out
    /\ envSteps < MaxEnv /\ ~stopping /\ S # {} /\ S \subseteq live
    /\ live' = live \ S /\ envSteps' = envSteps + 1
    /\ UNCHANGED <<kidsVer, cs, cfgVer, seen, told, scanReq, stopping, returned>>
EnvKids(k) ==     \* a child is added or removed
    /\ envSteps < MaxEnv /\ ~stopping /\ k \in live
    /\ kidsVer' = [kidsVer EXCEPT ![k] = @ + 1] /\ envSteps' = envSteps + 1
    /\ UNCHANGED <<live, cs, cfgVer, seen, told, scanReq, stopping, returned>>

\* ---- manager
\* scan, the handling of an exited client and Stop all run on the manager's one goroutine: none
\* of them happens while a scan sits between building a client and subscribing for it
Idle == \A k \in Keys : cs[k] # "building"
TimerScan == /\ ~stopping /\ ~scanReq /\ Idle /\ scanReq' = TRUE
             /\ UNCHANGED <<live, kidsVer, cs, cfgVer, seen, told, stopping, returned, envSteps>>
ScanBuild(k) ==
    /\ scanReq /\ ~stopping /\ Idle /\ k \in live /\ cs[k] = "absent"
    /\ cs' = [cs EXCEPT ![k] = "building"]
    /\ cfgVer' = [cfgVer EXCEPT ![k] = kidsVer[k]]
    /\ told' = told \ {k}
    /\ UNCHANGED <<live, kidsVer, seen, scanReq, stopping, returned, envSteps>>
Subscribe(k) ==
    /\ cs[k] = "building"
    /\ seen' = [seen EXCEPT ![k] = kidsVer[k]]
    /\ cs' = [cs EXCEPT ![k] = IF ~AsCodedSubscribe /\ cfgVer[k] # kidsVer[k] THEN "stopping" ELSE "running"]
    /\ UNCHANGED <<live, kidsVer, cfgVer, told, scanReq, stopping, returned, envSteps>>
ScanStop(k) ==
    /\ scanReq /\ ~stopping /\ Idle /\ k \notin live /\ cs[k] = "running"
    /\ (AsCodedScan => live # {})
    /\ cs' = [cs EXCEPT ![k] = "stopping"]
    /\ UNCHANGED <<live, kidsVer, cfgVer, seen, told, scanReq, stopping, returned, envSteps>>
ScanDone ==   \* nothing left to do for this scan
    /\ scanReq /\ Idle
    /\ \A k \in Keys : ~(k \in live /\ cs[k] = "absent") /\ ~(k \notin live /\ cs[k] = "running" /\ (AsCodedScan => live # {}))
    /\ scanReq' = FALSE
    /\ UNCHANGED <<live, kidsVer, cs, cfgVer, seen, told, stopping, returned, envSteps>>
\* the client's own subscription: its edge was tombstoned, or a child edge changed
ClientSees(k) ==
    /\ cs[k] = "running" /\ ~stopping
    /\ (k \in told \/ seen[k] < kidsVer[k])
    /\ seen' = [seen EXCEPT ![k] = kidsVer[k]]
    /\ told' = told \ {k}
    /\ cs' = [cs EXCEPT ![k] = "stopping"]
    /\ UNCHANGED <<live, kidsVer, cfgVer, scanReq, stopping, returned, envSteps>>
Exited(k) ==
    /\ cs[k] = "stopping" /\ Idle
    /\ cs' = [cs EXCEPT ![k] = "absent"]
    /\ scanReq' = IF stopping THEN scanReq ELSE TRUE
    /\ UNCHANGED <<live, kidsVer, cfgVer, seen, told, stopping, returned, envSteps>>
StopManager ==
    /\ ~stopping /\ Idle /\ stopping' = TRUE
    /\ cs' = [k \in Keys |-> IF cs[k] = "running" THEN "stopping" ELSE cs[k]]
    /\ UNCHANGED <<live, kidsVer, cfgVer, seen, told, scanReq, returned, envSteps>>
Returned ==
    /\ stopping /\ ~returned /\ \A k \in Keys : cs[k] = "absent"
    /\ returned' = TRUE
    /\ UNCHANGED <<live, kidsVer, cs, cfgVer, seen, told, scanReq, stopping, envSteps>>

Env == \/ \E k \in Keys : EnvCreate(k) \/ EnvDelete(k) \/ EnvKids(k)
       \/ \E S \in SUBSET Keys : EnvDeleteAbove(S)
Mgr == \/ TimerScan \/ ScanDone \/ Returned
       \/ \E k \in Keys : ScanBuild(k) \/ Subscribe(k) \/ ScanStop(k) \/ ClientSees(k) \/ Exited(k)
Next == Env \/ Mgr \/ StopManager
Spec == Init /\ [][Next]_mvars
\* every manager / client step that stays enabled is eventually taken (each on its own: a busy
\* timer must not starve a client that is exiting)
FairSpec == /\ Spec /\ WF_mvars(TimerScan) /\ WF_mvars(ScanDone) /\ WF_mvars(Returned)
            /\ \A k \in Keys : /\ WF_mvars(ScanBuild(k)) /\ WF_mvars(Subscribe(k)) /\ WF_mvars(ScanStop(k))
                                /\ WF_mvars(ClientSees(k)) /\ WF_mvars(Exited(k))

\* ---- properties
TypeOK == /\ live \subseteq Keys /\ cs \in [Keys -> {"absent", "building", "running", "stopping"}]
\* quiescent: nothing for the manager to do but wait for the timer
Quiet == /\ \A k \in Keys : (k \in live <=> cs[k] = "running") /\ (cs[k] # "stopping")
         /\ \A k \in live : cfgVer[k] = kidsVer[k]
\* C07: once node changes stop, exactly the live placements have a running client built from
\* the current children - and it stays that way
EnvQuiet == envSteps = MaxEnv \/ stopping
Quiesce == (envSteps = MaxEnv /\ ~stopping) ~> (Quiet \/ stopping)
StopStopsAll == stopping ~> returned
\* a client that runs was built from a child set that is current, or its subscription will be told
NeverStaleUnnoticed == \A k \in Keys : (cs[k] = "running" /\ cfgVer[k] # kidsVer[k]) => seen[k] < kidsVer[k] \/ k \notin live
=============================================================================
