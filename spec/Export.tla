------------------------------- MODULE Export -------------------------------
(***************************************************************************)
(* Export / import of a node subtree (client/node.go: ExportNodes,           *)
(* exportNodesHelper, ImportNodes, ReplaceIDs, checkIDs) - C15.              *)
(*                                                                         *)
(* A tree is given by a top node, a parent function, a deleted flag per      *)
(* child edge, and per node a type, node points and edge points.  Export     *)
(* walks live children only and normalises noise (key "0" -> "", tombstone-0 *)
(* edge points dropped); Import re-parents the top node, optionally replaces *)
(* every id through one map (also inside nodeID points, also for ids that    *)
(* are not nodes of the tree), marks the top description, and sends every    *)
(* node, whereupon the store normalises keys again.                          *)
(***************************************************************************)
EXTENDS Integers, Sequences, FiniteSets, TLC

NormKey(k) == IF k = "" THEN "0" ELSE k
P(type, key, val, txt, tomb) == [type |-> type, key |-> key, val |-> val, txt |-> txt, tomb |-> tomb]

\* ---- trees: [top, nodes, parent, deleted, type, pts, epts]
Kids(t, n) == {c \in t.nodes : c # t.top /\ t.parent[c] = n}
LiveKids(t, n) == {c \in Kids(t, n) : ~t.deleted[c]}
RECURSIVE LiveBelow(_, _)
LiveBelow(t, S) == LET S2 == S \cup UNION {LiveKids(t, n) : n \in S} IN IF S2 = S THEN S ELSE LiveBelow(t, S2)
Live(t) == LiveBelow(t, {t.top})

\* ---- export: live nodes only; noise removed
ExportPts(ps) == {[p EXCEPT !.key = IF p.key = "0" THEN "" ELSE p.key] : p \in ps}
ExportEpts(ps) == ExportPts({p \in ps : ~(p.type = "tombstone" /\ p.val = 0)})
Export(t) ==
    [top |-> t.top, nodes |-> Live(t),
     parent |-> [n \in Live(t) \ {t.top} |-> t.parent[n]],
     type |-> [n \in Live(t) |-> t.type[n]],
     pts |-> [n \in Live(t) |-> ExportPts(t.pts[n])],
     epts |-> [n \in Live(t) |-> ExportEpts(t.epts[n])]]

\* ---- import.  M: the id map (identity when ids are preserved).  New(x) is the
\* fresh id standing for old id x.
New(x) == "new:" \o x
Marked(txt) == txt \o " (import)"
MapPts(ps, M(_)) == {IF p.type = "nodeID" /\ p.txt # "" THEN [p EXCEPT !.txt = M(p.txt)] ELSE p : p \in ps}
Import(x, newParent, preserve) ==
    LET M(i) == IF preserve THEN i ELSE New(i)
        ids == {M(n) : n \in x.nodes}
        old(i) == CHOOSE n \in x.nodes : M(n) = i
    IN [top |-> M(x.top), nodes |-> ids,
        parent |-> [i \in ids |-> IF old(i) = x.top THEN newParent ELSE M(x.parent[old(i)])],
        type |-> [i \in ids |-> x.type[old(i)]],
        \* what the store then holds: keys normalised; every edge gets the tombstone-0 point again
        pts |-> [i \in ids |-> {[p EXCEPT !.key = NormKey(p.key),
                                          !.txt = IF old(i) = x.top /\ p.type = "description" THEN Marked(p.txt) ELSE p.txt]
                                   : p \in MapPts(x.pts[old(i)], M)}],
        epts |-> [i \in ids |-> {[p EXCEPT !.key = NormKey(p.key)] : p \in x.epts[old(i)]}]]

\* ---- C15: what must come out, stated directly on the original tree
NormPts(ps) == {[p EXCEPT !.key = NormKey(p.key)] : p \in ps}
NoTomb0(ps) == {p \in ps : ~(p.type = "tombstone" /\ p.val = 0)}
Reproduces(t, newParent, preserve) ==
    LET r == Import(Export(t), newParent, preserve)
        M(i) == IF preserve THEN i ELSE New(i)
    IN /\ r.nodes = {M(n) : n \in Live(t)}                      \* same shape, deleted nodes not exported
       /\ r.top = M(t.top) /\ r.parent[r.top] = newParent
       /\ \A n \in Live(t) \ {t.top} : r.parent[M(n)] = M(t.parent[n])
       /\ \A n \in Live(t) :
            /\ r.type[M(n)] = t.type[n]
            /\ NoTomb0(r.epts[M(n)]) = NoTomb0(NormPts(t.epts[n]))
            /\ r.pts[M(n)] = {[p EXCEPT !.txt = IF p.type = "nodeID" /\ p.txt # "" THEN M(p.txt)
                                               ELSE IF n = t.top /\ p.type = "description" THEN Marked(p.txt)
                                               ELSE p.txt] : p \in NormPts(t.pts[n])}
=============================================================================
