SPECIFICATION TraceSpec
POSTCONDITION TraceAccepted
CHECK_DEADLOCK FALSE
