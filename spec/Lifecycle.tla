------------------------------ MODULE Lifecycle ------------------------------
(***************************************************************************)
(* The run/stop wrapper that starts and stops groups of clients             *)
(* (client/group.go over oklog/run; server.Server keeps its clients in one, *)
(* client.Manager is one of its members) - anchored in C07's last clause    *)
(* ("stopping ... stops every client and returns"), otherwise beyond the    *)
(* listed properties.                                                       *)
(*                                                                         *)
(* Members are actors with a Run that blocks until the actor ends on its    *)
(* own (with its error) or is told to stop, and a Stop.  The group adds one  *)
(* member of its own that ends when Group.Stop has been called.             *)
(*   Run:   starts every member; when the first one ends, every member's    *)
(*          Stop is called once; Run returns the first one's error after    *)
(*          all members have ended                                          *)
(*   Stop:  may be called any number of times, before, while and after Run  *)
(***************************************************************************)
EXTENDS Integers, Sequences, FiniteSets, TLC

CONSTANTS Actors          \* the members added by the user

Own == "group"            \* the group's own member
Members == Actors \cup {Own}

VARIABLES run,        \* "idle" | "running" | "returned"
          stopped,    \* Group.Stop has been called at least once
          alive,      \* members whose Run has not ended
          told,       \* [member -> number of times its Stop was called by the group]
          first,      \* the member that ended first ("" = none yet)
          ret         \* what Run returned ("" = not yet / nil is "nil")
lvars == <<run, stopped, alive, told, first, ret>>

LInit == /\ run = "idle" /\ stopped = FALSE /\ alive = {} /\ told = [m \in Members |-> 0]
         /\ first = "" /\ ret = ""

\* Group.Stop from outside
StopCall == /\ stopped' = TRUE /\ UNCHANGED <<run, alive, told, first, ret>>
\* Group.Run
RunCall == /\ run = "idle" /\ run' = "running" /\ alive' = Members
           /\ UNCHANGED <<stopped, told, first, ret>>
\* a member ends: on its own (an actor of the user, "kicked" by the environment), because the group was
\* stopped (the group's own member), or because it was told to
Ends(m) == /\ run = "running" /\ m \in alive
           /\ alive' = alive \ {m}
           /\ first' = IF first = "" THEN m ELSE first
           /\ UNCHANGED <<run, stopped, told, ret>>
Kick(a) == a \in Actors /\ Ends(a)
OwnEnds == stopped /\ Ends(Own)
Obeys(m) == told[m] > 0 /\ Ends(m)
\* once a member has ended the group tells every member to stop, once (telling its own member is a Group.Stop)
Tell(m) == /\ run = "running" /\ first # "" /\ told[m] = 0
           /\ told' = [told EXCEPT ![m] = 1]
           /\ stopped' = (stopped \/ m = Own)
           /\ UNCHANGED <<run, alive, first, ret>>
Return == /\ run = "running" /\ alive = {} /\ \A m \in Members : told[m] = 1
          /\ run' = "returned" /\ ret' = IF first = Own THEN "nil" ELSE first
          /\ UNCHANGED <<stopped, alive, told, first>>

Internal == OwnEnds \/ (\E m \in Members : Obeys(m) \/ Tell(m)) \/ Return
LNext == StopCall \/ RunCall \/ (\E a \in Actors : Kick(a)) \/ Internal
LSpec == LInit /\ [][LNext]_lvars /\ WF_lvars(Internal)

\* ---- properties
ToldOnce == \A m \in Members : told[m] <= 1
ReturnsAfterAll == run = "returned" => (alive = {} /\ \A m \in Members : told[m] = 1)
FirstErrorWins == run = "returned" => ret = (IF first = Own THEN "nil" ELSE first)
\* a Run that has been started returns once the group is stopped or a member ends
Terminates == (run = "running" /\ (stopped \/ first # "")) ~> (run = "returned")
=============================================================================
