SPECIFICATION FairSpec
CONSTANTS
  Clients = {"c1", "c2", "c3"}
  Idents = {"i1", "i2"}
  MaxTs = 3
  MaxOps = 6
  StaleReads = FALSE
INVARIANTS NeverRejected FinalIsNewest
PROPERTIES EveryCallReturns
