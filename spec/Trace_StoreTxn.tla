--------------------------- MODULE Trace_StoreTxn ---------------------------
(***************************************************************************)
(* Role 3 for C04: validates crash experiments on a real instance running   *)
(* as a child process.  Events of one experiment:                           *)
(*   Reset | Issue(b) | Ack(b) | Crash(site) |                              *)
(*   Recovered(opens, rootSame, keySame, hashOK, present)                   *)
(* `present[b]` is what the re-opened store shows of batch b: "all",        *)
(* "none" or "partial".  The acceptance conditions are the invariants of    *)
(* StoreTxn.tla projected on what can be observed after a restart.          *)
(***************************************************************************)
EXTENDS Integers, Sequences, FiniteSets, TLC, Json

Trace == ndJsonDeserialize("trace.ndjson")
VARIABLES l, issued, acked, crashed
tvars == <<l, issued, acked, crashed>>
TraceInit == l = 1 /\ issued = {} /\ acked = {} /\ crashed = FALSE
Ev == Trace[l]
IsEvent(e) == l <= Len(Trace) /\ Ev.ev = e /\ l' = l + 1

Reset == IsEvent("Reset") /\ issued' = {} /\ acked' = {} /\ crashed' = FALSE
Issue == IsEvent("Issue") /\ ~crashed /\ issued' = issued \cup {Ev.b} /\ UNCHANGED <<acked, crashed>>
Ack == IsEvent("Ack") /\ Ev.b \in issued /\ acked' = acked \cup {Ev.b} /\ UNCHANGED <<issued, crashed>>
Crash == IsEvent("Crash") /\ crashed' = TRUE /\ UNCHANGED <<issued, acked>>
Recovered ==
    /\ IsEvent("Recovered") /\ crashed
    /\ Ev.opens                                         \* the file opens again
    /\ Ev.rootSame /\ Ev.keySame                        \* StoreTxn!RootStable, KeyStable
    /\ Ev.hashOK                                        \* StoreTxn!Atomicity: points and hashes in step
    /\ \A b \in DOMAIN Ev.present :
          /\ b \in acked => Ev.present[b] = "all"       \* StoreTxn!Durability
          /\ Ev.present[b] \in {"all", "none"}          \* a batch is visible completely or not at all
          /\ b \notin issued => Ev.present[b] = "none"  \* StoreTxn!OnlyIssued
    /\ crashed' = FALSE /\ UNCHANGED <<issued, acked>>

TraceNext == Reset \/ Issue \/ Ack \/ Crash \/ Recovered
TraceSpec == TraceInit /\ [][TraceNext]_tvars
TraceAccepted ==
    LET d == TLCGet("stats").diameter - 1
    IN IF d = Len(Trace) THEN TRUE
       ELSE PrintT(<<"TRACE-REJECTED", d + 1, Trace[d + 1]>>) /\ FALSE
=============================================================================
