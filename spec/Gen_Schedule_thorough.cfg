SPECIFICATION Spec
CONSTANTS
  Mins <- MinsQ
  WdSets <- WdAll
  DateSets <- DatesAll
  W0s = {0, 1, 2, 3, 4, 5, 6}
  Days = {1, 2, 3}
INVARIANTS Dump
