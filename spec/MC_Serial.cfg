SPECIFICATION Spec
CONSTANTS
  AsCodedEmpty = TRUE
  MaxSteps = 3
  Seqs = {0, 7, 255}
INVARIANTS Promises
VIEW View
