----------------------------- MODULE Concurrent -----------------------------
(***************************************************************************)
(* Concurrent use of the store (store/sqlite.go, store/store.go) - C20.     *)
(*                                                                         *)
(* Clients call operations on a last-write-wins store; an operation takes   *)
(* effect atomically at its linearisation point (Lin) between its call and  *)
(* its return: for a write the commit of its transaction, for a read the    *)
(* snapshot it returns.  The observable consequences that C20 states -      *)
(* every acknowledged write is visible to every later read, successive      *)
(* reads of a point never go back, every call returns - are the acceptance  *)
(* conditions of Trace_Concurrent.tla; here TLC checks that they hold in    *)
(* every behaviour of the linearisable model, i.e. that a correct store is  *)
(* never rejected by the trace validation, and that a store serving a stale *)
(* snapshot (StaleReads = TRUE) is.                                         *)
(***************************************************************************)
EXTENDS Integers, Sequences, FiniteSets, TLC

CONSTANTS Clients, Idents, MaxTs, MaxOps, StaleReads

VARIABLES st,      \* [Idents -> Nat]   newest timestamp stored per identity (0 = none)
          pc,      \* [Clients -> "idle" | "called" | "done"]
          cur,     \* [Clients -> current operation record]
          nextTs,  \* timestamps are unique (one global counter, as in the driver)
          ackedMax,\* [Idents -> Nat]   newest timestamp among acknowledged writes
          lastRead,\* [Clients -> [Idents -> Nat]]
          ops, bad
cvars == <<st, pc, cur, nextTs, ackedMax, lastRead, ops, bad>>

None == [kind |-> "none", id |-> "", ts |-> 0, floor |-> [i \in Idents |-> 0], res |-> [i \in Idents |-> 0]]

Init == /\ st = [i \in Idents |-> 0] /\ pc = [c \in Clients |-> "idle"] /\ cur = [c \in Clients |-> None]
        /\ nextTs = 1 /\ ackedMax = [i \in Idents |-> 0]
        /\ lastRead = [c \in Clients |-> [i \in Idents |-> 0]] /\ ops = 0 /\ bad = FALSE

CallWrite(c, i) ==
    /\ pc[c] = "idle" /\ ops < MaxOps /\ nextTs <= MaxTs
    /\ cur' = [cur EXCEPT ![c] = [None EXCEPT !.kind = "write", !.id = i, !.ts = nextTs]]
    /\ nextTs' = nextTs + 1 /\ pc' = [pc EXCEPT ![c] = "called"] /\ ops' = ops + 1
    /\ UNCHANGED <<st, ackedMax, lastRead, bad>>
CallRead(c) ==
    /\ pc[c] = "idle" /\ ops < MaxOps
    \* the floor: what was acknowledged before this read was issued
    /\ cur' = [cur EXCEPT ![c] = [None EXCEPT !.kind = "read", !.floor = ackedMax]]
    /\ pc' = [pc EXCEPT ![c] = "called"] /\ ops' = ops + 1
    /\ UNCHANGED <<st, nextTs, ackedMax, lastRead, bad>>
Lin(c) ==
    /\ pc[c] = "called"
    /\ IF cur[c].kind = "write"
       THEN /\ st' = [st EXCEPT ![cur[c].id] = IF @ < cur[c].ts THEN cur[c].ts ELSE @]
            /\ UNCHANGED cur
       ELSE /\ \E snap \in (IF StaleReads THEN {st, [i \in Idents |-> 0]} ELSE {st}) :
                 cur' = [cur EXCEPT ![c].res = snap]
            /\ UNCHANGED st
    /\ pc' = [pc EXCEPT ![c] = "done"]
    /\ UNCHANGED <<nextTs, ackedMax, lastRead, ops, bad>>
\* the acceptance conditions of the trace spec, evaluated when a read returns
ReadOK(c) == \A i \in Idents : /\ cur[c].res[i] >= cur[c].floor[i]       \* acknowledged writes are visible
                               /\ cur[c].res[i] >= lastRead[c][i]        \* reads never go back
                               /\ cur[c].res[i] < nextTs                 \* only what somebody wrote
Ret(c) ==
    /\ pc[c] = "done"
    /\ IF cur[c].kind = "write"
       THEN /\ ackedMax' = [ackedMax EXCEPT ![cur[c].id] = IF @ < cur[c].ts THEN cur[c].ts ELSE @]
            /\ UNCHANGED <<lastRead, bad>>
       ELSE /\ bad' = (bad \/ ~ReadOK(c))
            /\ lastRead' = [lastRead EXCEPT ![c] = cur[c].res]
            /\ UNCHANGED ackedMax
    /\ pc' = [pc EXCEPT ![c] = "idle"] /\ cur' = [cur EXCEPT ![c] = None]
    /\ UNCHANGED <<st, nextTs, ops>>

Next == \E c \in Clients : Lin(c) \/ Ret(c) \/ CallRead(c) \/ \E i \in Idents : CallWrite(c, i)
Spec == Init /\ [][Next]_cvars
FairSpec == Spec /\ \A c \in Clients : WF_cvars(Lin(c)) /\ WF_cvars(Ret(c))

NeverRejected == ~bad
\* when the load stops the content is the newest acknowledged write per identity (C01)
FinalIsNewest == (\A c \in Clients : pc[c] = "idle") => st = ackedMax
EveryCallReturns == \A c \in Clients : (pc[c] # "idle") ~> (pc[c] = "idle")
=============================================================================
