------------------------------ MODULE PointOps ------------------------------
(***************************************************************************)
(* The point-set operations of data/point.go that every client and the      *)
(* store's write path build on: Points.Add (newest wins on the client side: *)
(* data/encode.go, data/node.go, client/network-manager.go), Points.Merge   *)
(* (change detection: client/shelly-io-client.go) and Points.Collapse (the   *)
(* store collapses every incoming batch with it before it compares with     *)
(* what it holds - anchored in C01).  Beyond the listed properties except    *)
(* for Collapse.                                                             *)
(*                                                                         *)
(* The operators are transcriptions of the code, branch by branch; what the  *)
(* code's comments promise and the code does not do is named:               *)
(*   MergeKeepsTombstone  "largest tombstone value always wins" (comment in  *)
(*       Merge) - as coded a newer point replaces the stored one together    *)
(*       with its (possibly smaller) tombstone count; Add keeps the maximum  *)
(*   MergeNormalises      Add treats key "" as key "0", Merge compares the   *)
(*       keys as they are                                                    *)
(* A point: [type, key, ts, val, text, tomb].  Time is a small integer, the  *)
(* zero time (replaced by the wall clock in the code) is not in the domain.  *)
(***************************************************************************)
EXTENDS Integers, Sequences, FiniteSets, TLC

Norm(k) == IF k = "" THEN "0" ELSE k
Ident(p) == <<p.type, Norm(p.key)>>
Max2(a, b) == IF a > b THEN a ELSE b
MinOf(S) == CHOOSE x \in S : \A y \in S : x <= y
ToSet(s) == {s[i] : i \in 1..Len(s)}

\* ---- Points.Add
Add(ps, pIn) ==
    LET p == [pIn EXCEPT !.key = Norm(@)]
        idx == {i \in 1..Len(ps) : ps[i].key = p.key /\ ps[i].type = p.type}
    IN IF idx = {} THEN Append(ps, p)
       ELSE LET i == MinOf(idx)             \* the loop stops at the first match
                old == ps[i]
                base == IF p.ts > old.ts THEN p ELSE old
            IN [ps EXCEPT ![i] = [base EXCEPT !.tomb = Max2(old.tomb, p.tomb)]]

RECURSIVE AddAll(_, _)
AddAll(ps, in) == IF in = <<>> THEN ps ELSE AddAll(Add(ps, Head(in)), Tail(in))

\* ---- Points.Merge, one incoming point: returns <<ps', modified>>
\* the loop does not stop at a match unless the incoming point is not newer
RECURSIVE MergeScan(_, _, _, _, _, _)
MergeScan(ps, pIn, maxTime, i, found, modified) ==
    IF i > Len(ps) THEN <<ps, found, modified>>
    ELSE LET p == ps[i] IN
         IF ~(p.key = pIn.key /\ p.type = pIn.type) THEN MergeScan(ps, pIn, maxTime, i + 1, found, modified)
         ELSE LET tombUp == pIn.tomb > p.tomb
                  ps1 == IF tombUp THEN [ps EXCEPT ![i].tomb = pIn.tomb] ELSE ps
                  m1 == modified \/ tombUp
              IN IF ~(pIn.ts > p.ts) THEN <<ps1, TRUE, m1>>            \* break
                 ELSE LET m2 == m1 \/ pIn.val # p.val \/ (maxTime > 0 /\ pIn.ts - p.ts > maxTime) \/ pIn.text # p.text
                      IN MergeScan([ps1 EXCEPT ![i] = pIn], pIn, maxTime, i + 1, TRUE, m2)
MergeOne(ps, pIn, maxTime) ==
    LET r == MergeScan(ps, pIn, maxTime, 1, FALSE, FALSE)
    IN IF ~r[2] THEN <<Append(ps, pIn), TRUE>> ELSE <<r[1], r[3]>>
\* the whole batch: <<ps', returned points>>
RECURSIVE MergeAll(_, _, _, _)
MergeAll(ps, in, maxTime, ret) ==
    IF in = <<>> THEN <<ps, ret>>
    ELSE LET r == MergeOne(ps, Head(in), maxTime)
         IN MergeAll(r[1], Tail(in), maxTime, IF r[2] THEN Append(ret, Head(in)) ELSE ret)
Merge(ps, in, maxTime) == MergeAll(ps, in, maxTime, <<>>)

\* ---- Points.Collapse: the result as a set (the code's order is that of a map iteration)
\* per identity the point with the greatest time, the later one on a tie
Collapse(ps) ==
    IF Len(ps) <= 1 THEN ToSet(ps)
    ELSE {ps[i] : i \in {i \in 1..Len(ps) :
                            \A j \in 1..Len(ps) : Ident(ps[j]) = Ident(ps[i]) /\ j # i =>
                                 (ps[j].ts < ps[i].ts \/ (ps[j].ts = ps[i].ts /\ j < i))}}

\* ---- laws
\* what a client that folds deliveries with Add ends up with does not depend on the order of the
\* deliveries (distinct times per identity): the newest point, with the largest tombstone count seen
Newest(S, id) == CHOOSE p \in S : Ident(p) = id /\ \A q \in S : Ident(q) = id => q.ts <= p.ts
MaxTomb(S, id) == LET T == {p.tomb : p \in {q \in S : Ident(q) = id}} IN CHOOSE t \in T : \A u \in T : u <= t
AddResult(S) == {[[Newest(S, id) EXCEPT !.key = Norm(@)] EXCEPT !.tomb = MaxTomb(S, id)] : id \in {Ident(p) : p \in S}}
DistinctTimes(S) == \A p, q \in S : (Ident(p) = Ident(q) /\ p # q) => p.ts # q.ts
AddOrderIndependent(in) == DistinctTimes(ToSet(in)) /\ Cardinality(ToSet(in)) = Len(in) => ToSet(AddAll(<<>>, in)) = AddResult(ToSet(in))
AddNoDuplicates(in) == LET r == AddAll(<<>>, in) IN \A i, j \in 1..Len(r) : Ident(r[i]) = Ident(r[j]) => i = j
\* Collapse leaves one point per identity, and it is a newest one
CollapseLaw(ps) ==
    LET c == Collapse(ps) IN
    /\ \A p, q \in c : Ident(p) = Ident(q) => p = q
    /\ {Ident(p) : p \in c} = {Ident(ps[i]) : i \in 1..Len(ps)}
    /\ \A p \in c : \A i \in 1..Len(ps) : Ident(ps[i]) = Ident(p) => ps[i].ts <= p.ts
\* Merge returns a subsequence of what came in, and whatever it does not return left the value, text
\* and tombstone count of its identity as they were
MergeReturnsSub(ps, in, maxTime) ==
    LET r == Merge(ps, in, maxTime)[2] IN \A i \in 1..Len(r) : r[i] \in ToSet(in)
\* the comment's promise (violated as coded: see MC_PointOps_tomb.cfg, which must fail)
MergeKeepsTombstone(ps, in, maxTime) ==
    LET r == Merge(ps, in, maxTime)[1]
    IN \A i \in 1..Len(r) : \A j \in 1..Len(ps) :
          (ps[j].key = r[i].key /\ ps[j].type = r[i].type) => r[i].tomb >= ps[j].tomb
=============================================================================
