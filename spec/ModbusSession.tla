--------------------------- MODULE ModbusSession ---------------------------
(***************************************************************************)
(* C19: a client session against a server over a framed transport.          *)
(*                                                                         *)
(* One step = one call of the client API (modbus.Client): the request PDU   *)
(* is framed, possibly destroyed or altered on the way (Tamper), processed  *)
(* by the server exactly as Modbus!Process says, and the response is        *)
(* framed, possibly altered, and decoded by the client.  The register file  *)
(* persists over the session, so reads observe earlier writes.              *)
(*                                                                         *)
(* Framing is abstract: a frame is intact or not.  What "not intact" means  *)
(* per transport (RTU: CRC mismatch; TCP: transaction id mismatch; both:    *)
(* truncated) is the driver's concretisation; the guarantee modelled is     *)
(* that the receiver rejects every such frame.                              *)
(*                                                                         *)
(* Open choice: the client's receive buffer is 200 bytes (modbus/client.go) *)
(* - a response that does not fit may be returned or reported as an error   *)
(* ("lenient"), never returned with wrong values.                           *)
(***************************************************************************)
EXTENDS Modbus, Json

CONSTANTS MaxAddr,        \* registers 0..MaxAddr are mapped
          BitCounts, RegCounts, AddrsS, WordVals,
          Depth, Tampers

VARIABLES regs, hist,
          transport,  \* "rtu" or "tcp", fixed for a session
          late        \* TCP: the response to the previous call was held back past the client's
                      \* timeout and is the first thing the client reads in this call
svars == <<regs, hist, transport, late>>

Content(a) == ((a % 1000) * 40503 + 12345) % 65536
\* registers at the very end of the address space (and those holding the last coils) are mapped as well: a
\* range that ends exactly at the last address is a valid request
TopAddrs == {4094, 4095, 65533, 65534, 65535}
NoVal == [a \in {} |-> "x"]

Methods == {"ReadCoils", "ReadDiscreteInputs", "ReadHoldingRegs", "ReadInputRegs",
            "WriteSingleCoil", "WriteSingleReg"}
FcOf(m) == CASE m = "ReadCoils" -> 1 [] m = "ReadDiscreteInputs" -> 2
             [] m = "ReadHoldingRegs" -> 3 [] m = "ReadInputRegs" -> 4
             [] m = "WriteSingleCoil" -> 5 [] m = "WriteSingleReg" -> 6

\* response frame size on the wire, the larger of RTU (id fc data crc2) and TCP (mbap7 fc data)
RespFits(r) == Len(r.data) + 8 <= 200

ClientResult(m, r, n) ==
    IF m \in {"ReadCoils", "ReadDiscreteInputs"} THEN ClientBits(r, n)
    ELSE IF m \in {"ReadHoldingRegs", "ReadInputRegs"} THEN ClientRegs(r, n)
    ELSE IF r.kind = "normal" THEN <<>> ELSE CErr

\* a: address, n: count (reads) or value (writes; coil: 0/1)
Call(m, a, n, t) ==
    LET fc == FcOf(m)
        arg == IF m = "WriteSingleCoil" THEN (IF n = 0 THEN 0 ELSE 65280) ELSE n
        d == ReqData(a, arg)
        o == Process(regs, NoVal, fc, d)
        r == CHOOSE x \in o.resps : TRUE
        \* RTU frames carry a CRC: a damaged request never reaches the server's
        \* PDU layer.  TCP frames carry no checksum: "integrity" damage there is a
        \* changed transaction id, the server processes the request and echoes the
        \* wrong id, and it is the client that rejects the response.
        reached == IF transport = "rtu" THEN t \notin {"req-integrity", "req-truncate", "unit"}
                   ELSE t \notin {"req-truncate", "unit"}
        \* a late response carries the transaction id of the call it answers: the client must not
        \* take it for the answer to this call ("resp-late" is a TCP tamper; RTU has no such guard)
        result == IF ~reached \/ t # "none" \/ late THEN CErr
                  ELSE ClientResult(m, r, n)
    IN /\ Cardinality(o.resps) = 1        \* well-formed requests have one specified response
       /\ regs' = IF reached THEN o.regs ELSE regs
       /\ hist' = Append(hist, [m |-> m, a |-> a, n |-> n, t |-> t,
                                ok |-> result # CErr,
                                vals |-> IF result = CErr THEN <<>> ELSE result,
                                lenient |-> t = "none" /\ ~late /\ ~RespFits(r),
                                \* a response longer than the client's buffer leaves bytes
                                \* in the stream: the driver opens a fresh connection
                                \* after a late response was read the real answer is still in the stream
                                resync |-> (reached /\ ~RespFits(r)) \/ late])
       \* (a held-back response that needs a fresh connection anyway is gone with the old one)
       /\ late' = (t = "resp-late" /\ RespFits(r))
       /\ UNCHANGED transport

Init == /\ regs = [a \in (0..MaxAddr) \cup TopAddrs |-> Content(a)]
        /\ hist = <<>> /\ late = FALSE
        /\ transport \in {"rtu", "tcp"}

Next == /\ Len(hist) < Depth
        /\ \E m \in Methods, a \in AddrsS, t \in Tampers :
              /\ (t = "resp-late" => transport = "tcp" /\ ~late)
              /\ (late => t = "none")
              /\ \E n \in (IF m \in {"ReadCoils", "ReadDiscreteInputs"} THEN BitCounts
                        ELSE IF m \in {"ReadHoldingRegs", "ReadInputRegs"} THEN RegCounts
                        ELSE IF m = "WriteSingleCoil" THEN {0, 1} ELSE WordVals) :
                  Call(m, a, n, t)


\* Role 2 (simulation): the same step split in two, so that the simulator picks
\* the arguments among cheap successors (Pick) and evaluates Process only for
\* the one it picked (Exec), instead of building ~10^4 full successors per step.
CountsOf(m) == IF m \in {"ReadCoils", "ReadDiscreteInputs"} THEN BitCounts
               ELSE IF m \in {"ReadHoldingRegs", "ReadInputRegs"} THEN RegCounts
               ELSE IF m = "WriteSingleCoil" THEN {0, 1} ELSE WordVals
VARIABLE pend
gvars == <<regs, hist, transport, late, pend>>
None == [m |-> "none", a |-> 0, n |-> 0, t |-> "none"]
GenInit == Init /\ pend = None
Pick == /\ pend = None /\ Len(hist) < Depth
        /\ \E m \in Methods, a \in AddrsS, t \in Tampers : \E n \in CountsOf(m) :
               /\ (t = "resp-late" => transport = "tcp" /\ ~late)
               /\ (late => t = "none")
               /\ pend' = [m |-> m, a |-> a, n |-> n, t |-> t]
        /\ UNCHANGED <<regs, hist, transport, late>>
Exec == /\ pend # None
        /\ Call(pend.m, pend.a, pend.n, pend.t)
        /\ pend' = None
GenNext == Pick \/ Exec
GenSpec == GenInit /\ [][GenNext]_gvars
\* Role 1: exhaustive, one atomic step per call
Spec == GenInit /\ [][Next /\ UNCHANGED pend]_gvars

\* C19 on the model: whatever was read in an untampered call is what the
\* register file held at that moment; a write followed by a read of the same
\* register returns what was written.
LastOK == hist # <<>> /\ hist[Len(hist)].ok /\ ~hist[Len(hist)].lenient
ReadMatchesFile ==
    LastOK => LET h == hist[Len(hist)] IN
        /\ h.m \in {"ReadHoldingRegs", "ReadInputRegs"} =>
               /\ Len(h.vals) = h.n
               /\ \A i \in 1..h.n : h.vals[i] = regs[h.a + i - 1]
        /\ h.m \in {"ReadCoils", "ReadDiscreteInputs"} =>
               /\ Len(h.vals) = h.n
               /\ \A i \in 1..h.n : h.vals[i] = CoilOf(regs, h.a + i - 1)
        /\ h.m = "WriteSingleReg" => regs[h.a] = h.n
        /\ h.m = "WriteSingleCoil" => CoilOf(regs, h.a) = h.n
TamperedIsError ==
    hist # <<>> => LET h == hist[Len(hist)] IN h.t # "none" => ~h.ok
\* the call after a held-back response never succeeds with that response
LateIsError ==
    Len(hist) >= 2 => ((hist[Len(hist) - 1].t = "resp-late" /\ ~hist[Len(hist) - 1].resync) => ~hist[Len(hist)].ok)

Dump == Len(hist) = Depth => PrintT(ToJson([transport |-> transport, steps |-> hist]))
=============================================================================
