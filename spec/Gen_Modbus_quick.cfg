SPECIFICATION Spec
CONSTANTS
  FCs = {0, 1, 2, 3, 4, 5, 6, 7, 15, 16, 23, 129}
  Addrs = {0, 1, 16, 17, 32, 65535}
  Qtys = {0, 1, 2, 9, 16, 125, 126, 128, 2000, 2001, 2041, 32768, 65280, 65535}
  LenClasses = {"exact", "short", "long", "bcwrong", "empty"}
  MapNames = {"sparse", "dense300", "valid", "top"}
INVARIANTS Dump
