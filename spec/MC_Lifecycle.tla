---------------------------- MODULE MC_Lifecycle ----------------------------
(* Role 1: Lifecycle for two actors, every order of Stop / Run / members ending on their own.  *)
(* Role 2: environment schedules (stop | run | kick:<actor>) with the outcome the specification *)
(* predicts once everything internal has happened; replayed by `vh group` on the real           *)
(* client.Group with scripted members.                                                          *)
EXTENDS Lifecycle, Json

CONSTANTS MaxSteps
VARIABLES hist
Quiet == ~ENABLED Internal
GInit == LInit /\ hist = <<>>
\* the environment acts only when the group has settled (the driver waits between its steps)
GEnv == /\ Quiet /\ Len(hist) < MaxSteps
        /\ \/ StopCall /\ hist' = Append(hist, "stop")
           \/ RunCall /\ hist' = Append(hist, "run")
           \/ \E a \in Actors : Kick(a) /\ hist' = Append(hist, "kick:" \o a)
GNext == GEnv \/ (Internal /\ UNCHANGED hist)
GSpec == GInit /\ [][GNext]_<<lvars, hist>>
Dump == (Quiet /\ Len(hist) >= 1) =>
           PrintT(ToJson([steps |-> hist, run |-> run, ret |-> ret,
                          told |-> [m \in Actors |-> told[m]], alive |-> Cardinality(alive)]))
=============================================================================
