SPECIFICATION FairSpec
CONSTANTS
  Keys = {"R-C1", "G-C1", "G-C2"}
  MaxEnv = 6
  AsCodedScan = FALSE
  AsCodedSubscribe = FALSE
INVARIANTS TypeOK NeverStaleUnnoticed
PROPERTIES Quiesce StopStopsAll
