SPECIFICATION Spec
CONSTANTS
  IdChars = {"a","b","c","d","e","f","g","h","i","j","k","l","m","n","o","p","q","r","s","t","u","v","w","x","y","z","0","1","2","3","4","5","6","7","8","9"}
  MaxIdLen = 2
  NodeListLens = {0, 1, 2}
INVARIANTS Lossless AsCodedLosesData HoleIsPG
