------------------------------ MODULE MC_Auth ------------------------------
EXTENDS Auth, Json
View == live
Dump == Len(hist) = MaxOps => PrintT(ToJson(hist))
\* the gate table, printed once for the driver
PathClasses == {"nodes", "nodes-slash", "node", "node-points", "node-samples", "node-parents", "node-not",
                "nodes-dotdot", "nodes-doubleslash", "auth", "static", "v1-other", "upper-v1"}
ASSUME PrintT(ToJson([gate |-> [pc \in PathClasses |-> [a \in AuthClasses |-> Status401(pc, a)]]]))
=============================================================================
