SPECIFICATION Spec
CONSTANTS
  MaxConds = 2
  MaxBatches = 6
  MaxPts = 2
  CondMode = "feedback"
INVARIANTS Dump
