SPECIFICATION Spec
CONSTANTS
  IdChars = {"a", "g", "l", "o", "0", "9", "."}
  MaxIdLen = 2
  NodeListLens = {0, 1, 2}
INVARIANTS Lossless AsCodedLosesData HoleIsPG
