SPECIFICATION Spec
CONSTANTS
  MaxOps = 18
  Mode = "kids"
INVARIANTS Dump
