-------------------------------- MODULE Sync --------------------------------
(***************************************************************************)
(* Upstream synchronisation (client/sync.go) - C02.                         *)
(*                                                                         *)
(* Two stores, D (downstream, runs the sync client) and U (upstream),       *)
(* restricted to the downstream device subtree.  Everything in the subtree  *)
(* is an identity with a last-write-wins version: node points, edge points, *)
(* and the tombstone edge point that deletes / undeletes a node.  `sub`     *)
(* maps every identity to the node placement (edge) it belongs to, `par`    *)
(* gives the edge above an edge.                                            *)
(*                                                                         *)
(* Real-time path: a write accepted on one side while the link is up is     *)
(* forwarded to the other (queues d2u / u2d, lost when the link drops).     *)
(* Catch-up (syncNode): when the link is (re)established and every period,  *)
(* the two trees are compared top down by hash and, where they differ,      *)
(* points are exchanged by timestamp and children are compared.             *)
(* Link loss comes in three kinds that the protocol must all survive: the   *)
(* sync node is disabled and re-enabled, the connection is cut below the    *)
(* NATS client (which reconnects on its own), the upstream instance is      *)
(* restarted.  They differ in the code paths taken, not in this model: the  *)
(* kind is chosen by the schedule generator (Gen_Sync) and acted out by the *)
(* driver.                                                                  *)
(*   intended  children are compared including deleted ones, so a           *)
(*             tombstone written during an outage travels like any point    *)
(*   AsCoded   children are listed without deleted ones: a child deleted on *)
(*             one side is "missing" there, the other side's copy is sent   *)
(*             over with its old tombstone-0 point, which loses against the *)
(*             newer deletion - the sides never agree (finding F2a)         *)
(***************************************************************************)
EXTENDS Integers, Sequences, FiniteSets, TLC

CONSTANTS Idents,     \* identities; each is [e |-> edge, k |-> "pt" | "tomb"]
          Edges,      \* placements below the device root (the root itself is "top")
          ParentOf,   \* [Edges -> Edges \cup {"top"}]
          Fresh,      \* placements that do not exist at the start: the first (undelete) write of their
                      \* tombstone identity on a side creates the node there; catch-up carries it over
          MaxWrites, MaxOutages,
          AsCoded

Sides == {"D", "U"}
Other(s) == IF s = "D" THEN "U" ELSE "D"

VARIABLES st,      \* [Sides -> [Idents -> Nat]]  newest timestamp held (0 = never written)
          link,    \* "up" | "down"
          q,       \* [Sides -> set of <<ident, ts>>] messages in flight towards that side
          clock, writes, outages, dirty
yvars == <<st, link, q, clock, writes, outages, dirty>>

TombOf(e) == CHOOSE i \in Idents : i.e = e /\ i.k = "tomb"
\* tombstone timestamps: odd clock values delete, even ones undelete (value is a function of the write)
Deleted(s, e) == st[s][TombOf(e)] % 2 = 1
Exists(s, e) == e \notin Fresh \/ st[s][TombOf(e)] > 0
\* an edge is listed by a (non-deleted) child walk iff it exists and it and all edges above it are live
RECURSIVE Visible(_, _)
Visible(s, e) == IF e = "top" THEN TRUE ELSE Exists(s, e) /\ ~Deleted(s, e) /\ Visible(s, ParentOf[e])
RECURSIVE Reach(_)
\* the catch-up walk reaches an edge if all edges above it are listed on both sides (intended: always)
Reach(e) == IF e = "top" THEN TRUE
            ELSE Reach(ParentOf[e]) /\ (AsCoded => (ParentOf[e] = "top" \/ (~Deleted("D", ParentOf[e]) /\ ~Deleted("U", ParentOf[e]))))

Init == /\ st = [s \in Sides |-> [i \in Idents |-> 0]] /\ link = "up" /\ q = [s \in Sides |-> {}]
        /\ clock = 1 /\ writes = 0 /\ outages = 0 /\ dirty = FALSE

\* ---- environment
Write(s, i, del) ==
    /\ writes < MaxWrites
    \* tombstone writes carry an odd (delete) or even (undelete) timestamp, other writes any
    /\ LET ts == IF i.k = "tomb" THEN (IF del THEN 2 * clock + 1 ELSE 2 * clock) ELSE 2 * clock
       IN /\ st' = [st EXCEPT ![s][i] = IF @ < ts THEN ts ELSE @]
          /\ q' = IF link = "up" THEN [q EXCEPT ![Other(s)] = @ \cup {<<i, ts>>}] ELSE q
    /\ clock' = clock + 1 /\ writes' = writes + 1 /\ dirty' = TRUE
    /\ UNCHANGED <<link, outages>>
LinkDown == /\ link = "up" /\ outages < MaxOutages /\ link' = "down" /\ q' = [s \in Sides |-> {}]
            /\ outages' = outages + 1 /\ UNCHANGED <<st, clock, writes, dirty>>
LinkUp == /\ link = "down" /\ link' = "up" /\ dirty' = TRUE /\ UNCHANGED <<st, q, clock, writes, outages>>

\* ---- protocol
Deliver(s) == /\ \E m \in q[s] :
                    /\ st' = [st EXCEPT ![s][m[1]] = IF @ < m[2] THEN m[2] ELSE @]
                    /\ q' = [q EXCEPT ![s] = @ \ {m}]
              /\ UNCHANGED <<link, clock, writes, outages, dirty>>
\* one catch-up pass over everything the walk reaches
Newest(i) == IF st["D"][i] > st["U"][i] THEN st["D"][i] ELSE st["U"][i]
Exchanged(i) ==
    IF ~AsCoded THEN TRUE
    ELSE \* the identities of an edge are exchanged if the edge is reached and listed on both sides;
         \* its tombstone is only seen as a point of a listed child
         Reach(i.e) /\ ~Deleted("D", i.e) /\ ~Deleted("U", i.e)
CatchUp == /\ link = "up" /\ dirty
           /\ st' = [s \in Sides |-> [i \in Idents |-> IF Exchanged(i) THEN Newest(i) ELSE st[s][i]]]
           /\ dirty' = FALSE
           /\ UNCHANGED <<link, q, clock, writes, outages>>
PeriodicSync == /\ link = "up" /\ ~dirty /\ dirty' = TRUE   \* the sync ticker
                /\ UNCHANGED <<st, link, q, clock, writes, outages>>

Env == \/ LinkDown \/ LinkUp
       \/ \E s \in Sides, i \in Idents, del \in BOOLEAN : Write(s, i, del)
Proto == CatchUp \/ PeriodicSync \/ \E s \in Sides : Deliver(s)
Next == Env \/ Proto
Spec == Init /\ [][Next]_yvars
FairSpec == /\ Spec /\ WF_yvars(CatchUp) /\ WF_yvars(PeriodicSync) /\ WF_yvars(LinkUp)
            /\ \A s \in Sides : WF_yvars(Deliver(s))

\* ---- C02
NoLostWrite == \A s \in Sides, i \in Idents : st[s][i] <= 2 * clock + 1
InSync == st["D"] = st["U"]
EnvDone == writes = MaxWrites /\ outages = MaxOutages
Converges == (EnvDone /\ link = "up") ~> InSync
\* the agreed value is the newest accepted on either side: CatchUp / Deliver only ever raise a
\* version to one that was written (monotone), checked as an action property
Monotone == [][\A s \in Sides, i \in Idents : st'[s][i] >= st[s][i]]_yvars
=============================================================================
