SPECIFICATION Spec
CONSTANTS
  PtsIdx = {0, 1, 2, 3, 4, 5, 6, 7, 8}
  EptsIdx = {0, 1, 2}
  SampleK = 4000
INVARIANTS Dump
