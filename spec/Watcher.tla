------------------------------- MODULE Watcher -------------------------------
(***************************************************************************)
(* client.NodeWatcher (client/node.go): a view of one node that an          *)
(* application keeps up to date - subscribe to the node's points, read the  *)
(* node, then fold every update that arrives into the copy (data.MergePoints *)
(* - no timestamps are compared there).  Beyond the listed properties; the   *)
(* manager's two-step start (Manager!ScanBuild / Subscribe) is its sibling.  *)
(*                                                                         *)
(* One point identity; writes are numbered 1, 2, ... in the order they are   *)
(* published.  A write is two steps: it is published on the bus (where it    *)
(* waits in the store's inbox) and later applied by the store.  `q` is the   *)
(* watcher's subscription queue (FIFO).                                      *)
(*   intended  the watcher hears of a write when the store has applied it    *)
(*             (the store's rebroadcast): subscribe, then read, loses nothing *)
(*   AsCoded   the watcher subscribes to the request subject p.<id> itself:   *)
(*             it hears of a write when it is published.  A write published   *)
(*             before the subscription exists and applied after the watcher's *)
(*             read is never seen: the copy stays behind until the next write *)
(*             (MC_Watcher_ascoded must fail Holds)                           *)
(*   Holds     at quiescence the copy is what the store holds                *)
(*   NoRegress the copy never goes back to an older write - not what the code *)
(*             does either (its own FIXME; MC_Watcher_regress must fail)      *)
(***************************************************************************)
EXTENDS Integers, Sequences

CONSTANTS MaxWrites, AsCoded

VARIABLES pub,      \* number of writes published
          inbox,    \* published and not yet applied by the store
          store,    \* number of the newest write the store holds (0 = none)
          phase,    \* "new" | "subscribed" | "running"
          q,        \* updates delivered to the subscription and not folded in yet
          cur,      \* the watcher's copy
          high      \* the newest write the copy has ever shown
wvars == <<pub, inbox, store, phase, q, cur, high>>

WInit == pub = 0 /\ inbox = <<>> /\ store = 0 /\ phase = "new" /\ q = <<>> /\ cur = 0 /\ high = 0

Publish == /\ pub < MaxWrites /\ pub' = pub + 1 /\ inbox' = Append(inbox, pub + 1)
           /\ q' = IF AsCoded /\ phase # "new" THEN Append(q, pub + 1) ELSE q
           /\ UNCHANGED <<store, phase, cur, high>>
Apply == /\ inbox # <<>> /\ store' = Head(inbox) /\ inbox' = Tail(inbox)
         /\ q' = IF ~AsCoded /\ phase # "new" THEN Append(q, Head(inbox)) ELSE q
         /\ UNCHANGED <<pub, phase, cur, high>>
Subscribe == phase = "new" /\ phase' = "subscribed" /\ UNCHANGED <<pub, inbox, store, q, cur, high>>
Read == /\ phase = "subscribed" /\ phase' = "running" /\ cur' = store
        /\ high' = (IF store > high THEN store ELSE high) /\ UNCHANGED <<pub, inbox, store, q>>
Fold == /\ phase = "running" /\ q # <<>> /\ cur' = Head(q) /\ q' = Tail(q)
        /\ high' = (IF Head(q) > high THEN Head(q) ELSE high) /\ UNCHANGED <<pub, inbox, store, phase>>
WNext == Publish \/ Apply \/ Subscribe \/ Read \/ Fold
WSpec == WInit /\ [][WNext]_wvars /\ WF_wvars(Apply \/ Subscribe \/ Read \/ Fold)

Quiet == phase = "running" /\ q = <<>> /\ inbox = <<>>
Holds == Quiet => cur = store
NoRegress == cur >= high
Settles == <>[]Quiet
=============================================================================
