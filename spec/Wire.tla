-------------------------------- MODULE Wire --------------------------------
(***************************************************************************)
(* Wire encodings: bus protobuf for points and nodes (data/point.go,        *)
(* data/node.go) - C12 - and the serial packet (client/serial-wrapper.go,   *)
(* data/point.go ToSerial/SerialToPoint) - C17.                             *)
(*                                                                         *)
(* A point is a record over its eight fields; every field ranges over the   *)
(* atoms "z" (the zero value, which proto3 does not put on the wire), "a"   *)
(* (typical) and "b" (extreme).  The wire image of a message is the set of  *)
(* <<field, atom>> pairs that are actually sent.  The Go driver maps atoms  *)
(* to concrete values (several per atom, seeded).                           *)
(*                                                                         *)
(* Serial packets: [seq, subject, points]; the receiver checks a CRC-16     *)
(* unless the subject it *received* reads "log" (log packets carry no       *)
(* checksum by design).  The CRC's arithmetic is not modelled; its          *)
(* guarantee (all 1- and 2-bit errors and all bursts <= 16 bits are         *)
(* detected) is an axiom here which the driver tests exhaustively on the    *)
(* real code.  What the model does decide is which documented subjects are  *)
(* within such an error pattern of "log" (Hole), i.e. where the exemption   *)
(* defeats the guarantee.                                                   *)
(***************************************************************************)
EXTENDS Integers, Sequences, FiniteSets, TLC

Atoms == {"z", "a", "b"}
PointFields == {"type", "key", "value", "text", "time", "tombstone", "data", "origin"}
PointPat == [PointFields -> Atoms]

\* ---- bus protobuf (C12)
\* Intended: every non-zero field is sent.
EncPoint(p) == {<<f, p[f]>> : f \in {g \in PointFields : p[g] # "z"}}
\* As coded on the pinned tree: ToPb / PbToPoint never copy `data` (deviation F12a).
EncPointAsCoded(p) == {<<f, p[f]>> : f \in {g \in PointFields \ {"data"} : p[g] # "z"}}
DecPoint(w) == [f \in PointFields |-> IF \E v \in Atoms : <<f, v>> \in w
                                      THEN CHOOSE v \in Atoms : <<f, v>> \in w ELSE "z"]

NodeScalars == {"id", "type", "parent", "hash"}
\* a node pattern: scalar atoms plus two lists of point patterns
EncNode(n) == [sc |-> {<<f, n.sc[f]>> : f \in {g \in NodeScalars : n.sc[g] # "z"}},
               points |-> [i \in 1..Len(n.points) |-> EncPoint(n.points[i])],
               edgePoints |-> [i \in 1..Len(n.edgePoints) |-> EncPoint(n.edgePoints[i])]]
DecNode(w) == [sc |-> [f \in NodeScalars |-> IF \E v \in Atoms : <<f, v>> \in w.sc
                                             THEN CHOOSE v \in Atoms : <<f, v>> \in w.sc ELSE "z"],
               points |-> [i \in 1..Len(w.points) |-> DecPoint(w.points[i])],
               edgePoints |-> [i \in 1..Len(w.edgePoints) |-> DecPoint(w.edgePoints[i])]]

LosslessPoint(p) == DecPoint(EncPoint(p)) = p
LosslessNode(n) == DecNode(EncNode(n)) = n

\* ---- serial point (C17): value travels as float32, `data` is not part of the
\* serial property (C17 lists seq, subject and points with values to float32
\* precision and times to the nanosecond)
SerialFields == PointFields \ {"data"}
\* atoms of the value field after the float32 narrowing: "b" is a float64 that is
\* not exactly representable and comes back rounded ("b32")
Narrow(f, v) == IF f = "value" /\ v = "b" THEN "b32" ELSE v
SerialRoundTrip(p) == [f \in SerialFields |-> Narrow(f, p[f])]

\* ---- subjects and the log exemption (C17)
\* a subject is a sequence of one-character strings, at most 16 long
Alphabet == <<"a","b","c","d","e","f","g","h","i","j","k","l","m","n","o","p","q","r","s","t",
              "u","v","w","x","y","z","0","1","2","3","4","5","6","7","8","9",".">>
Code(c) == LET i == CHOOSE k \in 1..Len(Alphabet) : Alphabet[k] = c
           IN IF i <= 26 THEN 96 + i ELSE IF i <= 36 THEN 48 + (i - 27) ELSE 46
Pad16(s) == [i \in 1..16 |-> IF i <= Len(s) THEN Code(s[i]) ELSE 0]
BitOf(byte, k) == (byte \div (CASE k = 0 -> 128 [] k = 1 -> 64 [] k = 2 -> 32 [] k = 3 -> 16
                                [] k = 4 -> 8 [] k = 5 -> 4 [] k = 6 -> 2 [] k = 7 -> 1)) % 2
\* positions (0..127, transmission order, most significant bit first) where two subject fields differ
DiffBits(s, t) == {8 * (i - 1) + k : i \in 1..16, k \in 0..7} \cap
                  {pos \in 0..127 : BitOf(Pad16(s)[pos \div 8 + 1], pos % 8) # BitOf(Pad16(t)[pos \div 8 + 1], pos % 8)}
SetMax(S) == CHOOSE x \in S : \A y \in S : y <= x
SetMin(S) == CHOOSE x \in S : \A y \in S : x <= y
LOG == <<"l", "o", "g">>
\* the subject can be turned into "log" by an error pattern the CRC is relied upon to catch
Hole(s) == LET D == DiffBits(s, LOG)
           IN D # {} /\ (Cardinality(D) <= 2 \/ SetMax(D) - SetMin(D) + 1 <= 16)

\* receiver verdict on a packet whose subject field reads `rxSubject`, given
\* whether the damage is of a class the CRC detects
Delivered(rxSubject, crcWouldDetect) == rxSubject = LOG \/ ~crcWouldDetect
\* C17: a damaged packet on a documented subject is never delivered - holds for
\* every documented subject outside Hole; inside Hole the exemption lets it through.
NoSilentChange(sentSubject) == ~Hole(sentSubject)
=============================================================================
