------------------------------- MODULE Modbus -------------------------------
(***************************************************************************)
(* Modbus server PDU processing (modbus/pdu.go, reg.go) - C18 - and the     *)
(* client / transport / server composition (client.go, rtu.go, tcp.go) -    *)
(* C19.  Written against "MODBUS Application Protocol V1.1b3".              *)
(*                                                                         *)
(* A register file is a function  addr -> word  on the mapped addresses     *)
(* (sparse).  Coil n is bit (n % 16) of register (n \div 16), as            *)
(* modbus.Regs documents.  Validators reject some written words.            *)
(*                                                                         *)
(* A request is [fc, data] with data a sequence of bytes, exactly what      *)
(* PDU.ProcessRequest receives.                                            *)
(*                                                                         *)
(* Where C18 is silent the specification is deliberately open:              *)
(*  - a request with several faults may be answered with the exception of   *)
(*    any one of them (Faults is a set);                                    *)
(*  - a request shorter than the shortest well-formed body of its function  *)
(*    (MinLen) may be dropped without a response ("reject") or answered     *)
(*    with an exception;                                                    *)
(*  - a request with trailing bytes after a fixed-length body may be        *)
(*    processed on its fixed part or answered with exception 3; a write     *)
(*    echo may or may not repeat the trailing bytes;                        *)
(*  - a multi-write that ends in an exception may have changed any of the   *)
(*    addressed registers to the requested value ("partial").               *)
(***************************************************************************)
EXTENDS Integers, Sequences, FiniteSets, TLC

Pow2(n) == IF n = 0 THEN 1 ELSE IF n = 1 THEN 2 ELSE IF n = 2 THEN 4 ELSE IF n = 3 THEN 8
           ELSE IF n = 4 THEN 16 ELSE IF n = 5 THEN 32 ELSE IF n = 6 THEN 64 ELSE IF n = 7 THEN 128
           ELSE IF n = 8 THEN 256 ELSE IF n = 9 THEN 512 ELSE IF n = 10 THEN 1024 ELSE IF n = 11 THEN 2048
           ELSE IF n = 12 THEN 4096 ELSE IF n = 13 THEN 8192 ELSE IF n = 14 THEN 16384 ELSE 32768
Bit(w, b) == (w \div Pow2(b)) % 2
SetBit(w, b, v) == w - Bit(w, b) * Pow2(b) + v * Pow2(b)
Hi(w) == w \div 256
Lo(w) == w % 256
U16(d, i) == d[i] * 256 + d[i + 1]          \* big-endian 16-bit field at 1-based index i

\* ------------------------------------------------------------------ register file
\* regs: [mapped addresses -> 0..65535];  val: [subset of addresses -> validator name]
ValidOK(kind, w) == CASE kind = "even" -> w % 2 = 0
                      [] kind = "lt256" -> w < 256
                      [] OTHER -> TRUE
WordOK(val, a, w) == a \notin DOMAIN val \/ ValidOK(val[a], w)

RegMapped(regs, a) == a <= 65535 /\ a \in DOMAIN regs
CoilMapped(regs, n) == n <= 65535 /\ (n \div 16) \in DOMAIN regs
CoilOf(regs, n) == Bit(regs[n \div 16], n % 16)

\* ------------------------------------------------------------------ limits (V1.1b3 6.1 - 6.12)
MaxReadBits == 2000
MaxReadRegs == 125
MaxWriteBits == 1968
MaxWriteRegs == 123

ReadBitFCs == {1, 2}
ReadRegFCs == {3, 4}
FixedLen(fc) == IF fc \in {1, 2, 3, 4, 5, 6} THEN 4 ELSE IF fc \in {15, 16} THEN 5 ELSE 0
Known(fc) == fc \in {1, 2, 3, 4, 5, 6, 15, 16}
\* shortest well-formed request body of the protocol for a function code (fixed
\* part plus one unit of payload); also for functions the protocol defines but
\* this server does not implement (22 mask write, 23 read/write multiple, 24 FIFO)
MinLen(fc) == IF fc \in {1, 2, 3, 4, 5, 6} THEN 4 ELSE IF fc = 15 THEN 6 ELSE IF fc = 16 THEN 7
              ELSE IF fc = 22 THEN 6 ELSE IF fc = 23 THEN 11 ELSE IF fc = 24 THEN 2 ELSE 0

CeilDiv8(q) == (q + 7) \div 8

\* ------------------------------------------------------------------ responses
Normal(fc, data) == [kind |-> "normal", fc |-> fc, data |-> data]
Exc(fc, code) == [kind |-> "exc", fc |-> fc + 128, data |-> <<code>>]
Reject == [kind |-> "reject", fc |-> 0, data |-> <<>>]

\* byte k (0-based) of the packed coil response: coils a+8k .. a+8k+7, LSB first,
\* padding bits zero
PackedByte(regs, a, q, k) ==
    LET bitv(j) == IF 8 * k + j < q THEN CoilOf(regs, a + 8 * k + j) ELSE 0
    IN bitv(0) + 2 * bitv(1) + 4 * bitv(2) + 8 * bitv(3) + 16 * bitv(4) + 32 * bitv(5)
       + 64 * bitv(6) + 128 * bitv(7)

ReadBitsData(regs, a, q) ==
    <<CeilDiv8(q)>> \o [k \in 1..CeilDiv8(q) |-> PackedByte(regs, a, q, k - 1)]

ReadRegsData(regs, a, q) ==
    <<2 * q>> \o [k \in 1..(2 * q) |->
                    IF k % 2 = 1 THEN Hi(regs[a + (k - 1) \div 2]) ELSE Lo(regs[a + (k - 1) \div 2])]

\* ------------------------------------------------------------------ writes
\* Register word r after the coils a..upto of a multi-coil write have been stored
\* (each coil write is a read-modify-write of its register, LSB-first packing).
NewBit(regs, d, a, upto, r, b) ==
    LET n == 16 * r + b
    IN IF n >= a /\ n <= upto THEN Bit(d[6 + (n - a) \div 8], (n - a) % 8) ELSE Bit(regs[r], b)
WordAfter(regs, d, a, upto, r) ==
    LET nb(b) == NewBit(regs, d, a, upto, r, b)
    IN nb(0) + 2 * nb(1) + 4 * nb(2) + 8 * nb(3) + 16 * nb(4) + 32 * nb(5) + 64 * nb(6) + 128 * nb(7)
       + 256 * nb(8) + 512 * nb(9) + 1024 * nb(10) + 2048 * nb(11) + 4096 * nb(12) + 8192 * nb(13)
       + 16384 * nb(14) + 32768 * nb(15)
CoilWrites(regs, d, a, q) ==
    [r \in DOMAIN regs |-> IF r >= a \div 16 /\ r <= (a + q - 1) \div 16
                           THEN WordAfter(regs, d, a, a + q - 1, r) ELSE regs[r]]
\* does any single coil write of the sequence store a word its validator refuses?
CoilWriteInvalid(val, regs, d, a, q) ==
    \E n \in a..(a + q - 1) :
        /\ (n \div 16) \in DOMAIN val /\ CoilMapped(regs, n)
        /\ ~ValidOK(val[n \div 16], WordAfter(regs, d, a, n, n \div 16))

\* the words a multi-register write stores
RegWriteWord(d, i) == d[6 + 2 * i] * 256 + d[7 + 2 * i]

\* ------------------------------------------------------------------ faults
\* the set of exception codes that are justified for a request whose fixed part is present
RegRangeUnmapped(regs, lo, hi) == \E r \in lo..hi : ~RegMapped(regs, r)

Faults(regs, val, fc, d) ==
    LET a == U16(d, 1)
        q == U16(d, 3)
    IN
    IF ~Known(fc) THEN {1}
    ELSE IF fc \in ReadBitFCs THEN
        (IF q < 1 \/ q > MaxReadBits THEN {3} ELSE {})
        \cup (IF q >= 1 /\ (a + q - 1 > 65535 \/ RegRangeUnmapped(regs, a \div 16, (a + q - 1) \div 16)) THEN {2} ELSE {})
        \cup (IF Len(d) > 4 THEN {3} ELSE {})
    ELSE IF fc \in ReadRegFCs THEN
        (IF q < 1 \/ q > MaxReadRegs THEN {3} ELSE {})
        \cup (IF q >= 1 /\ (a + q - 1 > 65535 \/ RegRangeUnmapped(regs, a, IF a + q - 1 > 65535 THEN 65535 ELSE a + q - 1)) THEN {2} ELSE {})
        \cup (IF Len(d) > 4 THEN {3} ELSE {})
    ELSE IF fc = 5 THEN
        (IF q \notin {0, 65280} THEN {3} ELSE {})
        \cup (IF ~CoilMapped(regs, a) THEN {2} ELSE {})
        \cup (IF q \in {0, 65280} /\ CoilMapped(regs, a)
                 /\ ~WordOK(val, a \div 16, SetBit(regs[a \div 16], a % 16, IF q = 0 THEN 0 ELSE 1)) THEN {3} ELSE {})
        \cup (IF Len(d) > 4 THEN {3} ELSE {})
    ELSE IF fc = 6 THEN
        (IF ~RegMapped(regs, a) THEN {2} ELSE {})
        \cup (IF RegMapped(regs, a) /\ ~WordOK(val, a, q) THEN {3} ELSE {})
        \cup (IF Len(d) > 4 THEN {3} ELSE {})
    ELSE IF fc = 15 THEN
        (IF q < 1 \/ q > MaxWriteBits \/ d[5] # CeilDiv8(q) \/ Len(d) # 5 + CeilDiv8(q) THEN {3} ELSE {})
        \cup (IF q >= 1 /\ (a + q - 1 > 65535 \/ RegRangeUnmapped(regs, a \div 16, (a + q - 1) \div 16)) THEN {2} ELSE {})
        \cup (IF q >= 1 /\ q <= MaxWriteBits /\ Len(d) = 5 + CeilDiv8(q) /\ CoilWriteInvalid(val, regs, d, a, q) THEN {3} ELSE {})
    ELSE \* fc = 16
        (IF q < 1 \/ q > MaxWriteRegs \/ d[5] # 2 * q \/ Len(d) # 5 + 2 * q THEN {3} ELSE {})
        \cup (IF q >= 1 /\ (a + q - 1 > 65535 \/ RegRangeUnmapped(regs, a, IF a + q - 1 > 65535 THEN 65535 ELSE a + q - 1)) THEN {2} ELSE {})
        \cup (IF q >= 1 /\ q <= MaxWriteRegs /\ Len(d) = 5 + 2 * q
                 /\ (\E i \in 0..(q - 1) : RegMapped(regs, a + i) /\ ~WordOK(val, a + i, RegWriteWord(d, i))) THEN {3} ELSE {})

\* The only fault is "trailing bytes after a fixed-length body": processing the
\* fixed part is acceptable too.
OnlyTrailing(regs, val, fc, d) ==
    /\ fc \in {1, 2, 3, 4, 5, 6} /\ Len(d) > 4
    /\ Faults(regs, val, fc, SubSeq(d, 1, 4)) = {}

\* ------------------------------------------------------------------ Process
\* Result: [resps |-> set of acceptable responses, regs |-> register file after,
\*          partial |-> TRUE if a failed multi-write may have touched the addressed range,
\*          lo, hi |-> that range (register addresses)]
Outcome(resps, regs2, partial, lo, hi) ==
    [resps |-> resps, regs |-> regs2, partial |-> partial, lo |-> lo, hi |-> hi]

ProcessOK(regs, val, fc, d) ==
    \* precondition: fixed part present, no faults
    LET a == U16(d, 1)
        q == U16(d, 3)
    IN
    IF fc \in ReadBitFCs THEN Outcome({Normal(fc, ReadBitsData(regs, a, q))}, regs, FALSE, 0, 0)
    ELSE IF fc \in ReadRegFCs THEN Outcome({Normal(fc, ReadRegsData(regs, a, q))}, regs, FALSE, 0, 0)
    ELSE IF fc = 5 THEN
        Outcome({Normal(fc, SubSeq(d, 1, 4))},
                [regs EXCEPT ![a \div 16] = SetBit(regs[a \div 16], a % 16, IF q = 0 THEN 0 ELSE 1)], FALSE, 0, 0)
    ELSE IF fc = 6 THEN
        Outcome({Normal(fc, SubSeq(d, 1, 4))}, [regs EXCEPT ![a] = q], FALSE, 0, 0)
    ELSE IF fc = 15 THEN
        Outcome({Normal(fc, SubSeq(d, 1, 4))}, CoilWrites(regs, d, a, q), FALSE, 0, 0)
    ELSE \* 16
        Outcome({Normal(fc, SubSeq(d, 1, 4))},
                [r \in DOMAIN regs |-> IF r >= a /\ r < a + q THEN RegWriteWord(d, r - a) ELSE regs[r]],
                FALSE, 0, 0)

Process(regs, val, fc, d) ==
    IF ~Known(fc) THEN Outcome({Exc(fc % 128, 1)} \cup (IF Len(d) < MinLen(fc) THEN {Reject} ELSE {}),
                               regs, FALSE, 0, 0)
    ELSE IF Len(d) < MinLen(fc) THEN Outcome({Reject, Exc(fc, 3)}, regs, FALSE, 0, 0)
    ELSE LET fs == Faults(regs, val, fc, d)
             a == U16(d, 1)
             q == U16(d, 3)
         IN IF fs = {} THEN ProcessOK(regs, val, fc, d)
            ELSE IF OnlyTrailing(regs, val, fc, d)
            THEN LET o == ProcessOK(regs, val, fc, SubSeq(d, 1, 4))
                 IN \* processed on the fixed part (echo with or without the tail), or refused
                    [o EXCEPT !.resps = @ \cup {Exc(fc, 3)}
                                          \cup (IF fc \in {5, 6} THEN {Normal(fc, d)} ELSE {}),
                              !.partial = fc \in {5, 6}, !.lo = IF fc = 5 THEN a \div 16 ELSE a,
                              !.hi = IF fc = 5 THEN a \div 16 ELSE a]
            ELSE Outcome({Exc(fc, c) : c \in fs}, regs,
                         fc \in {15, 16} /\ q >= 1,
                         IF fc = 15 THEN a \div 16 ELSE a,
                         IF fc = 15 THEN (a + q - 1) \div 16 ELSE a + q - 1)

\* ------------------------------------------------------------------ C18 on the model
\* (checked by TLC for every request/map of MC_Modbus)
ReadsPure(regs, val, fc, d) == fc \in {1, 2, 3, 4} => Process(regs, val, fc, d).regs = regs
SingleWriteAtomic(regs, val, fc, d) ==
    fc \in {5, 6} /\ (\A r \in Process(regs, val, fc, d).resps : r.kind # "normal")
        => Process(regs, val, fc, d).regs = regs
ResponseWellFormed(regs, val, fc, d) ==
    \A r \in Process(regs, val, fc, d).resps :
        r.kind = "normal" =>
            /\ fc \in ReadBitFCs => r.data[1] = CeilDiv8(U16(d, 3)) /\ Len(r.data) = 1 + r.data[1]
            /\ fc \in ReadRegFCs => r.data[1] = 2 * U16(d, 3) /\ Len(r.data) = 1 + r.data[1]
            /\ r.data[1] <= 255

\* ------------------------------------------------------------------ C19: client side
\* what the client API must return for a read, given the response PDU and the
\* count it asked for
CErr == <<-1>>    \* "the client returns an error"
ClientBits(resp, count) ==
    IF resp.kind # "normal" \/ Len(resp.data) < 1 + CeilDiv8(count) THEN CErr
    ELSE [i \in 1..count |-> Bit(resp.data[2 + (i - 1) \div 8], (i - 1) % 8)]
ClientRegs(resp, count) ==
    IF resp.kind # "normal" \/ Len(resp.data) < 1 + 2 * count THEN CErr
    ELSE [i \in 1..count |-> resp.data[2 * i] * 256 + resp.data[2 * i + 1]]

ReqData(a, q) == <<Hi(a), Lo(a), Hi(q), Lo(q)>>

\* End to end: what a client read returns equals what the server holds.
EndToEndBits(regs, fc, a, count) ==
    LET o == Process(regs, <<>>, fc, ReqData(a, count))
        r == CHOOSE x \in o.resps : TRUE
    IN IF r.kind = "normal" THEN ClientBits(r, count) = [i \in 1..count |-> CoilOf(regs, a + i - 1)]
       ELSE ClientBits(r, count) = CErr
EndToEndRegs(regs, fc, a, count) ==
    LET o == Process(regs, <<>>, fc, ReqData(a, count))
        r == CHOOSE x \in o.resps : TRUE
    IN IF r.kind = "normal" THEN ClientRegs(r, count) = [i \in 1..count |-> regs[a + i - 1]]
       ELSE ClientRegs(r, count) = CErr

\* ------------------------------------------------------------------ C19: conversions
\* registers <-> 32-bit, both word orders (modbus/data.go).  TLC integers are
\* 32-bit signed, so the model evaluates the laws with high words < 2^15; the Go
\* driver checks all 2^16 words and seeded 32-bit values on the real functions.
RegsToU32(h, l) == h * 65536 + l
U32ToRegs(v) == <<v \div 65536, v % 65536>>
ConvInverse(h, l) == U32ToRegs(RegsToU32(h, l)) = <<h, l>>
=============================================================================
