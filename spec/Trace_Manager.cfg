SPECIFICATION TraceSpec
INVARIANTS AtMostOne
POSTCONDITION TraceAccepted
CHECK_DEADLOCK FALSE
