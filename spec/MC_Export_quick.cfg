SPECIFICATION Spec
CONSTANTS
  PtsIdx = {3, 6, 7, 8}
  EptsIdx = {0, 1}
  SampleK = 400
INVARIANTS C15
