------------------------------- MODULE Points -------------------------------
(***************************************************************************)
(* Typed configuration <-> points: data.Encode / Decode / DiffPoints /      *)
(* MergePoints (data/encode.go, decode.go, merge.go) - C10, C11.            *)
(*                                                                         *)
(* Points of one type never interact with points of another type (Decode    *)
(* groups by Point.Type), so a configuration struct is a product of         *)
(* independent fields and the model is one field of each supported kind:    *)
(*    scalar | ptr (pointer to scalar) | slice | array (fixed length) |     *)
(*    map (string keys) | struct (flat) | pstruct (pointer to flat struct)  *)
(* Scalar values are atoms 0 (the Go zero value - it matters, a tombstone   *)
(* writes it), 1, 2.  The Go driver maps atoms to extreme concrete values   *)
(* of every Go scalar type.                                                 *)
(*                                                                         *)
(* A point is [key, val, tomb].  Dec is transcribed from GroupedPoints.     *)
(* SetValue step by step, including the order dependence, KeyMaxInt, slice  *)
(* growth and trailing-tombstone trimming.  Where the pinned code indexes   *)
(* out of range the transcription yields "panic" when AsCoded = TRUE; the   *)
(* intended design (AsCoded = FALSE) returns "err" there.                   *)
(***************************************************************************)
EXTENDS Integers, Sequences, FiniteSets, TLC

CONSTANT AsCoded

Atoms == {0, 1, 2}
MapKeys == {"a", "b", "0", "2024"}      \* "2024": a map key that happens to be a number beyond the slice limit
StructFields == {"x", "y"}
ArrayLen == 2
MaxSlice == 3
Kinds == {"scalar", "ptr", "slice", "pslice", "array", "map", "struct", "pstruct", "pstructp"}
\* "pslice": slice of pointers to primitives; a nil element (Nil) is encoded as a tombstone for its
\* index, exactly like an element that was removed - so a value must not end in Nil
Nil == -9
\* "pstructp": pointer to a flat struct whose field y is itself a pointer to a primitive
\* (x: Atoms, y: <<>> | <<atom>>) - the only shape in which single fields carry tombstones
PFieldVals == {<<>>} \cup {<<a>> : a \in Atoms}
PStructZero == [f \in StructFields |-> IF f = "y" THEN <<>> ELSE 0]

\* ---- keys.  KeyIdx: the index a key parses to (strconv.Atoi), -1 = not a
\* non-negative integer.  "" is special-cased by the code (treated like "0" but
\* not counted for KeyMaxInt).
IndexKeys == <<"0", "1", "2", "3", "4", "5">>
KeyIdx(k) == IF \E i \in 1..Len(IndexKeys) : IndexKeys[i] = k
             THEN (CHOOSE i \in 1..Len(IndexKeys) : IndexKeys[i] = k) - 1
             ELSE IF k = "+1" THEN 1 ELSE IF k = "007" THEN 7 ELSE IF k = "1000" THEN 1000
             ELSE IF k = "1001" THEN 1001 ELSE IF k = "2024" THEN 2024
             ELSE IF k = "9223372036854775807" THEN 2000000000      \* the largest int: far beyond the limit
             ELSE -1                                                \* "9223372036854775808" does not parse
IdxKey(i) == IndexKeys[i + 1]

Pt(k, v, t) == [key |-> k, val |-> v, tomb |-> t]
\* "Odd values mean the point is deleted."  Intended: every odd count, negative
\* ones included.  As coded on the pinned tree the setter tested `t%2 == 1`, which
\* Go evaluates to false for negative odd t, while the slice-growth bookkeeping
\* tested `t%2 == 0` (also false for it): a negative odd tombstone was "live" for
\* the setter but did not grow the slice (finding F11a).
TombSet(t) == IF AsCoded THEN t > 0 /\ t % 2 = 1 ELSE t % 2 # 0
TombMax(t) == t % 2 # 0                    \* NOT `p.Tombstone%2 == 0` (TLC: -1 % 2 = 1)

\* ---- values
ValuesOf(kind) ==
    CASE kind = "scalar"  -> Atoms
      [] kind = "ptr"     -> {<<>>} \cup {<<a>> : a \in Atoms}
      [] kind = "slice"   -> UNION {[1..n -> Atoms] : n \in 0..MaxSlice}
      [] kind = "pslice"  -> {v \in UNION {[1..n -> {Nil, 1, 2}] : n \in 0..MaxSlice} : Len(v) = 0 \/ v[Len(v)] # Nil}
      [] kind = "array"   -> [1..ArrayLen -> Atoms]
      [] kind = "map"     -> UNION {[S -> Atoms] : S \in SUBSET MapKeys}
      [] kind = "struct"  -> [StructFields -> Atoms]
      [] kind = "pstruct" -> {<<>>} \cup {<<s>> : s \in [StructFields -> Atoms]}
      [] kind = "pstructp" -> {<<>>} \cup {<<[f \in StructFields |-> IF f = "y" THEN p ELSE a]>> : a \in Atoms, p \in PFieldVals}
ZeroOf(kind) ==
    CASE kind = "scalar"  -> 0
      [] kind = "ptr"     -> <<>>
      [] kind = "slice"   -> <<>>
      [] kind = "pslice"  -> <<>>
      [] kind = "array"   -> [i \in 1..ArrayLen |-> 0]
      [] kind = "map"     -> [k \in {} |-> 0]
      [] kind = "struct"  -> [f \in StructFields |-> 0]
      [] kind = "pstruct" -> <<>>
      [] kind = "pstructp" -> <<>>

\* deterministic order for sets of strings (map iteration order is random in Go;
\* the laws must not depend on it - MC checks both orders)
SeqOfKeys(S, rev) ==
    LET all == IF rev THEN <<"y", "x", "b", "a", "2024", "0">> ELSE <<"0", "2024", "a", "b", "x", "y">>
    IN SelectSeq(all, LAMBDA k : k \in S)

\* the point of one field of a "pstructp" struct: a nil pointer field is a tombstone
PFieldPt(f, fv) == IF f = "y" THEN (IF fv = <<>> THEN Pt(f, 0, 1) ELSE Pt(f, fv[1], 0)) ELSE Pt(f, fv, 0)

\* ---- Encode (appendPointsFromValue)
Enc(kind, v, rev) ==
    CASE kind = "scalar"  -> <<Pt("", v, 0)>>
      [] kind = "ptr"     -> IF v = <<>> THEN <<Pt("", 0, 1)>> ELSE <<Pt("", v[1], 0)>>
      [] kind \in {"slice", "array"} -> [i \in 1..Len(v) |-> Pt(IdxKey(i - 1), v[i], 0)]
      [] kind = "pslice"  -> [i \in 1..Len(v) |-> IF v[i] = Nil THEN Pt(IdxKey(i - 1), 0, 1) ELSE Pt(IdxKey(i - 1), v[i], 0)]
      [] kind = "map"     -> LET ks == SeqOfKeys(DOMAIN v, rev) IN [i \in 1..Len(ks) |-> Pt(ks[i], v[ks[i]], 0)]
      [] kind = "struct"  -> LET ks == SeqOfKeys(StructFields, rev) IN [i \in 1..Len(ks) |-> Pt(ks[i], v[ks[i]], 0)]
      [] kind = "pstruct" -> LET ks == SeqOfKeys(StructFields, rev) IN
                             IF v = <<>> THEN [i \in 1..Len(ks) |-> Pt(ks[i], 0, 1)]
                             ELSE [i \in 1..Len(ks) |-> Pt(ks[i], v[1][ks[i]], 0)]
      [] kind = "pstructp" -> LET ks == SeqOfKeys(StructFields, rev) IN
                             IF v = <<>> THEN [i \in 1..Len(ks) |-> Pt(ks[i], 0, 1)]
                             ELSE [i \in 1..Len(ks) |-> PFieldPt(ks[i], v[1][ks[i]])]

\* ---- Decode (GroupedPoints.SetValue).  Result: <<tag, value>>, tag in ok/err/panic
Ok(v) == <<"ok", v>>
Err == <<"err", <<>>>>
Bad == IF AsCoded THEN <<"panic", <<>>>> ELSE Err

SetMaxOf(S) == IF S = {} THEN -1 ELSE CHOOSE x \in S : \A y \in S : y <= x

RECURSIVE SliceApply(_, _, _, _)
\* fold the points into the (already grown) slice/array; "panic" marker = <<-1>>; zero: the element
\* type's zero value (0, or Nil for pointers)
SliceApply(cur, pts, i, zero) ==
    IF i > Len(pts) THEN cur
    ELSE LET p == pts[i]
             idx == IF p.key = "" THEN 0 ELSE KeyIdx(p.key)
         IN IF TombSet(p.tomb)
            THEN IF idx >= Len(cur) THEN SliceApply(cur, pts, i + 1, zero)
                 ELSE SliceApply([cur EXCEPT ![idx + 1] = zero], pts, i + 1, zero)
            ELSE IF idx >= Len(cur) THEN <<-1>>      \* v.Index(index) out of range
                 ELSE SliceApply([cur EXCEPT ![idx + 1] = p.val], pts, i + 1, zero)

RECURSIVE TrimLast(_, _, _)
\* deleted: descending sequence of tombstoned indexes; returns the new last index
TrimLast(deleted, i, last) ==
    IF i > Len(deleted) THEN last
    ELSE IF deleted[i] < last THEN last
    ELSE IF deleted[i] = last THEN TrimLast(deleted, i + 1, last - 1)
    ELSE TrimLast(deleted, i + 1, last)

DescSeq(S) == LET RECURSIVE f(_)
                  f(T) == IF T = {} THEN <<>> ELSE LET m == SetMaxOf(T) IN <<m>> \o f(T \ {m})
              IN f(S)
\* multiset of deleted indexes matters only through its sorted order with
\* duplicates; duplicates behave like a single entry in TrimLast
DecSliceLike(kind, prior, pts) ==
    LET notIdx == \E i \in 1..Len(pts) : pts[i].key # "" /\ KeyIdx(pts[i].key) < 0
        \* intended: the empty key counts as index 0; as coded it was skipped here but
        \* still written at index 0 below (finding F11b)
        EffIdx(p) == IF p.key = "" THEN (IF AsCoded THEN -1 ELSE 0) ELSE KeyIdx(p.key)
        maxInt == SetMaxOf({EffIdx(pts[i]) : i \in {j \in 1..Len(pts) :
                              EffIdx(pts[j]) >= 0 /\ ~TombMax(pts[j].tomb)}})
    IN IF notIdx THEN Err
       ELSE IF maxInt > 1000 THEN Err
       ELSE IF kind = "array" /\ maxInt > ArrayLen - 1 THEN Err
       ELSE LET zero == IF kind = "pslice" THEN Nil ELSE 0
                grown == IF kind \in {"slice", "pslice"} /\ maxInt > Len(prior) - 1
                         THEN [i \in 1..(maxInt + 1) |-> IF i <= Len(prior) THEN prior[i] ELSE zero]
                         ELSE prior
                after == SliceApply(grown, pts, 1, zero)
            IN IF after = <<-1>> THEN Bad
               ELSE IF kind = "array" THEN Ok(after)
               ELSE LET del == DescSeq({IF pts[i].key = "" THEN 0 ELSE KeyIdx(pts[i].key) :
                                          i \in {j \in 1..Len(pts) : TombSet(pts[j].tomb)}})
                        last == TrimLast(del, 1, Len(after) - 1)
                    IN Ok(SubSeq(after, 1, last + 1))

RECURSIVE MapApply(_, _, _)
MapApply(cur, pts, i) ==
    IF i > Len(pts) THEN cur
    ELSE LET p == pts[i]
             k == IF p.key = "" THEN "0" ELSE p.key
         IN IF TombSet(p.tomb)
            THEN MapApply([x \in (DOMAIN cur) \ {k} |-> cur[x]], pts, i + 1)
            ELSE MapApply([x \in (DOMAIN cur) \cup {k} |-> IF x = k THEN p.val ELSE cur[x]], pts, i + 1)

\* struct: last point per key wins (values := map[key]point), then each field set
LastFor(pts, f) == LET is == {i \in 1..Len(pts) : pts[i].key = f}
                   IN IF is = {} THEN 0 ELSE SetMaxOf(is)
StructApply(cur, pts) ==
    [f \in StructFields |->
        LET i == LastFor(pts, f)
        IN IF i = 0 THEN cur[f] ELSE IF TombSet(pts[i].tomb) THEN 0 ELSE pts[i].val]

PStructApply(cur, pts) ==
    [f \in StructFields |->
        LET i == LastFor(pts, f)
        IN IF i = 0 THEN cur[f]
           ELSE IF f = "y" THEN (IF TombSet(pts[i].tomb) THEN <<>> ELSE <<pts[i].val>>)
           ELSE IF TombSet(pts[i].tomb) THEN 0 ELSE pts[i].val]

RECURSIVE ScalarApply(_, _, _)
ScalarApply(cur, pts, i) ==
    IF i > Len(pts) THEN cur
    ELSE ScalarApply(IF TombSet(pts[i].tomb) THEN 0 ELSE pts[i].val, pts, i + 1)
RECURSIVE PtrApply(_, _, _)
PtrApply(cur, pts, i) ==
    IF i > Len(pts) THEN cur
    ELSE PtrApply(IF TombSet(pts[i].tomb) THEN <<>> ELSE <<pts[i].val>>, pts, i + 1)

\* pointer to struct: validFields bookkeeping, then as struct
RECURSIVE ValidFields(_, _, _)
ValidFields(vf, pts, i) ==
    IF i > Len(pts) THEN vf
    ELSE ValidFields(IF TombSet(pts[i].tomb) THEN vf \ {pts[i].key} ELSE vf \cup {pts[i].key}, pts, i + 1)

Dec(kind, prior, pts) ==
    IF pts = <<>> THEN Ok(prior)      \* no group for this type: field untouched
    ELSE CASE kind = "scalar"  -> Ok(ScalarApply(prior, pts, 1))
           [] kind = "ptr"     -> Ok(PtrApply(prior, pts, 1))
           [] kind \in {"slice", "pslice", "array"} -> DecSliceLike(kind, prior, pts)
           [] kind = "map"     -> Ok(MapApply(prior, pts, 1))
           [] kind = "struct"  -> Ok(StructApply(prior, pts))
           [] kind = "pstruct" ->
                IF ValidFields(StructFields, pts, 1) = {} THEN Ok(<<>>)
                ELSE Ok(<<StructApply(IF prior = <<>> THEN ZeroOf("struct") ELSE prior[1], pts)>>)
           [] kind = "pstructp" ->
                \* the pointer only becomes nil when every field of the struct has been deleted -
                \* a tombstone for one (pointer) field leaves the others alone
                IF ValidFields(StructFields, pts, 1) = {} THEN Ok(<<>>)
                ELSE Ok(<<PStructApply(IF prior = <<>> THEN PStructZero ELSE prior[1], pts)>>)

\* ---- DiffPoints
Diff(kind, b, a, rev) ==
    CASE kind = "scalar"  -> IF b = a THEN <<>> ELSE <<Pt("", a, 0)>>
      [] kind = "ptr"     -> IF b = a THEN <<>> ELSE IF a = <<>> THEN <<Pt("", 0, 1)>> ELSE <<Pt("", a[1], 0)>>
      [] kind \in {"slice", "pslice", "array"} ->
            LET upd == SelectSeq([i \in 1..Len(a) |-> i], LAMBDA i : i > Len(b) \/ a[i] # b[i])
                del == IF Len(b) > Len(a) THEN [j \in 1..(Len(b) - Len(a)) |-> Len(b) - j] ELSE <<>>  \* descending 0-based
            IN [i \in 1..Len(upd) |-> IF kind = "pslice" /\ a[upd[i]] = Nil THEN Pt(IdxKey(upd[i] - 1), 0, 1)
                                      ELSE Pt(IdxKey(upd[i] - 1), a[upd[i]], 0)]
               \o [j \in 1..Len(del) |-> Pt(IdxKey(del[j]), 0, 1)]
      [] kind = "map"     ->
            LET ks == SeqOfKeys({k \in DOMAIN a : k \notin DOMAIN b \/ a[k] # b[k]}, rev)
                ds == SeqOfKeys((DOMAIN b) \ (DOMAIN a), rev)
            IN [i \in 1..Len(ks) |-> Pt(ks[i], a[ks[i]], 0)] \o [i \in 1..Len(ds) |-> Pt(ds[i], 0, 1)]
      [] kind = "struct"  ->
            LET ks == SeqOfKeys({f \in StructFields : a[f] # b[f]}, rev)
            IN [i \in 1..Len(ks) |-> Pt(ks[i], a[ks[i]], 0)]
      [] kind = "pstruct" ->
            LET all == SeqOfKeys(StructFields, rev) IN
            IF b = <<>> /\ a = <<>> THEN <<>>
            ELSE IF a = <<>> THEN [i \in 1..Len(all) |-> Pt(all[i], 0, 1)]
            ELSE IF b = <<>> THEN [i \in 1..Len(all) |-> Pt(all[i], a[1][all[i]], 0)]
            ELSE LET ks == SeqOfKeys({f \in StructFields : a[1][f] # b[1][f]}, rev)
                 IN [i \in 1..Len(ks) |-> Pt(ks[i], a[1][ks[i]], 0)]
      [] kind = "pstructp" ->
            LET all == SeqOfKeys(StructFields, rev) IN
            IF b = <<>> /\ a = <<>> THEN <<>>
            ELSE IF a = <<>> THEN [i \in 1..Len(all) |-> Pt(all[i], 0, 1)]
            ELSE IF b = <<>> THEN [i \in 1..Len(all) |-> PFieldPt(all[i], a[1][all[i]])]
            ELSE LET ks == SeqOfKeys({f \in StructFields : a[1][f] # b[1][f]}, rev)
                 IN [i \in 1..Len(ks) |-> PFieldPt(ks[i], a[1][ks[i]])]

\* ---- laws (C10).  Equality identifies nil and empty containers by construction
\* (both are <<>> / the empty function here).
RoundTrip(kind, v, rev) ==
    LET r == Dec(kind, ZeroOf(kind), Enc(kind, v, rev)) IN r[1] = "ok" /\ r[2] = v
DiffMerge(kind, a, b, rev) ==
    LET first == Dec(kind, ZeroOf(kind), Enc(kind, a, rev))
        merged == Dec(kind, first[2], Diff(kind, a, b, rev))
    IN first[1] = "ok" /\ merged[1] = "ok" /\ merged[2] = b
=============================================================================
