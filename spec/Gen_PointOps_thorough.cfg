SPECIFICATION Spec
CONSTANTS
  Keys = {"", "0", "1"}
  Times = {1, 2, 3}
  Vals = {0, 1}
  Tombs = {0, 2}
  Texts = {"", "x"}
  MaxPrior = 1
  MaxIn = 2
  MaxBatch = 2
  MaxTimes = {0, 1}
INVARIANTS Dump
