SPECIFICATION Spec
CONSTANTS
  MaxOps = 10
  Mode = "struct"
INVARIANTS Dump
