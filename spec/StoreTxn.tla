------------------------------ MODULE StoreTxn ------------------------------
(***************************************************************************)
(* Transactions and crashes of the store (store/sqlite.go: nodePoints,      *)
(* edgePoints, updateHash, initMeta, initRoot, initJwtKey) - C04.           *)
(*                                                                         *)
(* The atomic write of Store.tla is refined into the steps the code takes   *)
(* inside one SQLite transaction - begin, write the point rows, insert the  *)
(* edge row, set the root id, update the hash of every ancestor edge,       *)
(* commit - followed by the acknowledgement.  `vol` is what the open        *)
(* transaction has written, `dur` what is committed.  Crash is always       *)
(* enabled and discards `vol`; Recover re-runs the idempotent               *)
(* initialisation.  First-time initialisation is itself a sequence of       *)
(* such transactions.                                                       *)
(***************************************************************************)
EXTENDS Integers, Sequences, FiniteSets, TLC

CONSTANTS Batches,      \* batch identifiers
          HashSteps     \* number of ancestor edges whose hash a write updates

InitSteps == <<"meta", "rootNode", "rootEdge", "adminNode", "adminEdge", "rootID", "jwt">>

VARIABLES dur,       \* [rows: set of batches whose rows are committed, hashes: set of batches folded into the hashes,
                     \*  init: set of initialisation steps committed, root, key]
          vol,       \* the open transaction: [b, rows, hashSteps]  or  <<>>
          acked,     \* batches acknowledged to their sender
          issued,    \* batches whose request was sent
          phase,     \* "init" | "run" | "down"
          tokens     \* keys under which a login token was handed out
svars == <<dur, vol, acked, issued, phase, tokens>>

Init == /\ dur = [rows |-> {}, hashes |-> {}, init |-> {}, root |-> "none", key |-> "none"]
        /\ vol = <<>> /\ acked = {} /\ issued = {} /\ phase = "init" /\ tokens = {}

\* ---- first-time initialisation: one committed step at a time, in order, each skipped if done
NextInit == LET todo == {i \in 1..Len(InitSteps) : InitSteps[i] \notin dur.init}
            IN IF todo = {} THEN 0 ELSE CHOOSE i \in todo : \A j \in todo : i <= j
InitStep ==
    /\ phase = "init" /\ NextInit # 0
    /\ LET s == InitSteps[NextInit]
       IN dur' = [dur EXCEPT !.init = @ \cup {s},
                             !.root = IF s = "rootID" THEN "r1" ELSE @,
                             !.key = IF s = "jwt" THEN "k1" ELSE @]
    /\ UNCHANGED <<vol, acked, issued, tokens>>
    /\ phase' = phase
InitDone == /\ phase = "init" /\ NextInit = 0 /\ phase' = "run"
            /\ UNCHANGED <<dur, vol, acked, issued, tokens>>

\* ---- one write batch
TxBegin(b) == /\ phase = "run" /\ vol = <<>> /\ b \notin issued
              /\ issued' = issued \cup {b} /\ vol' = <<[b |-> b, rows |-> FALSE, hs |-> 0]>>
              /\ UNCHANGED <<dur, acked, phase, tokens>>
TxRows == /\ vol # <<>> /\ ~vol[1].rows /\ vol' = <<[vol[1] EXCEPT !.rows = TRUE]>>
          /\ UNCHANGED <<dur, acked, issued, phase, tokens>>
TxHash == /\ vol # <<>> /\ vol[1].rows /\ vol[1].hs < HashSteps
          /\ vol' = <<[vol[1] EXCEPT !.hs = @ + 1]>>
          /\ UNCHANGED <<dur, acked, issued, phase, tokens>>
TxCommit == /\ vol # <<>> /\ vol[1].rows /\ vol[1].hs = HashSteps
            /\ dur' = [dur EXCEPT !.rows = @ \cup {vol[1].b}, !.hashes = @ \cup {vol[1].b}]
            /\ vol' = <<>>
            /\ UNCHANGED <<acked, issued, phase, tokens>>
Ack(b) == /\ phase = "run" /\ b \in dur.rows /\ b \notin acked /\ (IF vol = <<>> THEN TRUE ELSE vol[1].b # b)
          /\ acked' = acked \cup {b}
          /\ UNCHANGED <<dur, vol, issued, phase, tokens>>
Login == /\ phase = "run" /\ dur.key # "none" /\ tokens' = tokens \cup {dur.key}
         /\ UNCHANGED <<dur, vol, acked, issued, phase>>

Crash == /\ phase # "down" /\ vol' = <<>> /\ phase' = "down"
         /\ UNCHANGED <<dur, acked, issued, tokens>>
Recover == /\ phase = "down" /\ phase' = "init"     \* re-open: initialisation runs again, skipping what is done
           /\ UNCHANGED <<dur, vol, acked, issued, tokens>>

Next == InitStep \/ InitDone \/ TxRows \/ TxHash \/ TxCommit \/ Login \/ Crash \/ Recover
        \/ \E b \in Batches : TxBegin(b) \/ Ack(b)
Spec == Init /\ [][Next]_svars

\* ---- C04
Durability == acked \subseteq dur.rows
Atomicity == dur.rows = dur.hashes                      \* points and hashes are never out of step
OnlyIssued == dur.rows \subseteq issued
RootStable == (phase = "run" /\ "rootID" \in dur.init) => dur.root = "r1"
KeyStable == \A k \in tokens : k = dur.key             \* a token handed out stays valid across restarts
Opens == phase = "run" => (dur.root # "none" /\ dur.key # "none")
=============================================================================
