SPECIFICATION FairSpec
CONSTANTS
  Idents <- MCIdents
  Edges <- MCEdges
  ParentOf <- MCParent
  Fresh <- MCFresh
  MaxWrites = 3
  MaxOutages = 1
  AsCoded = TRUE
INVARIANTS NoLostWrite
PROPERTIES Converges
