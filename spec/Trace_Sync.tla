----------------------------- MODULE Trace_Sync -----------------------------
(***************************************************************************)
(* Role 3 for C02: validates runs of two real instances linked by the real  *)
(* sync client.  Events: Reset | Write(side, id, n) | LinkDown | LinkUp |   *)
(* Checkpoint(d, u) where d / u map every identity to the number of the     *)
(* write whose value the downstream / upstream instance holds after the     *)
(* link has been up through catch-up.  Acceptance = Sync!InSync and "the    *)
(* agreed value is the newest accepted on either side".                     *)
(***************************************************************************)
EXTENDS Integers, Sequences, FiniteSets, TLC, Json

Trace == ndJsonDeserialize("trace.ndjson")
Ids == {e \o ":" \o k : e \in {"eA", "eB"}, k \in {"pt", "pt2", "ept", "tomb"}}
       \cup {e \o ":" \o k : e \in {"eC", "eD"}, k \in {"pt", "tomb"}}
VARIABLES l, newest, link
tvars == <<l, newest, link>>
TraceInit == l = 1 /\ newest = [i \in Ids |-> 0] /\ link = "up"
Ev == Trace[l]
IsEvent(e) == l <= Len(Trace) /\ Ev.ev = e /\ l' = l + 1
Reset == IsEvent("Reset") /\ newest' = [i \in Ids |-> 0] /\ link' = "up"
Write == IsEvent("Write") /\ newest' = [newest EXCEPT ![Ev.id] = Ev.n] /\ UNCHANGED link   \* write numbers increase with real time
LinkDown == IsEvent("LinkDown") /\ link' = "down" /\ UNCHANGED newest
LinkUp == IsEvent("LinkUp") /\ link' = "up" /\ UNCHANGED newest
Checkpoint == /\ IsEvent("Checkpoint") /\ link = "up"
              /\ \A i \in Ids : Ev.d[i] = Ev.u[i]            \* both hold the same ...
              /\ \A i \in Ids : Ev.d[i] = newest[i]          \* ... and it is the newest accepted on either side
              /\ Ev.sameNodes                                \* same nodes, edges and every other point below the device
              /\ UNCHANGED <<newest, link>>
TraceNext == Reset \/ Write \/ LinkDown \/ LinkUp \/ Checkpoint
TraceSpec == TraceInit /\ [][TraceNext]_tvars
TraceAccepted ==
    LET d == TLCGet("stats").diameter - 1
    IN IF d = Len(Trace) THEN TRUE
       ELSE PrintT(<<"TRACE-REJECTED", d + 1, Trace[d + 1]>>) /\ FALSE
=============================================================================
