SPECIFICATION Spec
CONSTANTS
  MaxOps = 16
  Mode = "write"
INVARIANTS Dump
