------------------------------ MODULE Gen_Sync ------------------------------
EXTENDS MC_Sync

\* ---- role 2: environment schedules with the converged state the specification predicts
VARIABLE hist
Label(i) == i.e \o ":" \o i.k
GenInit == Init /\ hist = <<>>
GenNext ==
    /\ \/ /\ LinkDown /\ hist' = Append(hist, [op |-> "down", side |-> "", id |-> "", del |-> FALSE, n |-> 0])
       \/ /\ LinkUp /\ hist' = Append(hist, [op |-> "up", side |-> "", id |-> "", del |-> FALSE, n |-> 0])
       \/ \E s \in Sides, i \in Idents, del \in BOOLEAN :
             /\ (i.k # "tomb" => ~del)
             \* a node is only written to / deleted where it is currently visible (C02: "nodes visible there")
             /\ Visible(s, i.e) \/ (i.k = "tomb" /\ ~del /\ Visible(s, ParentOf[i.e]))
             /\ Write(s, i, del)
             /\ hist' = Append(hist, [op |-> "write", side |-> s, id |-> Label(i), del |-> del, n |-> clock])
    \* protocol steps happen on their own in the real system; for the prediction the model
    \* catches up at once whenever it can
GenProto == (CatchUp \/ \E s \in Sides : Deliver(s)) /\ UNCHANGED hist
GenSpec == GenInit /\ [][GenNext \/ GenProto]_<<yvars, hist>>
Json == INSTANCE Json
\* the converged state: newest write number per identity (0 = never written)
LastWrite(i) == LET ws == {k \in 1..Len(hist) : hist[k].op = "write" /\ hist[k].id = Label(i)}
                IN IF ws = {} THEN 0 ELSE hist[CHOOSE k \in ws : \A j \in ws : j <= k].n
Dump == (writes = MaxWrites /\ link = "up" /\ outages = MaxOutages) =>
          PrintT(Json!ToJson([ops |-> hist, final |-> [l \in {Label(i) : i \in Idents} |->
                                  LastWrite(CHOOSE i \in Idents : Label(i) = l)]]))
=============================================================================
