------------------------------ MODULE Gen_Sync ------------------------------
EXTENDS MC_Sync

\* ---- role 2: environment schedules with the converged state the specification predicts
CONSTANT Focus     \* "any" | "create": only the nodes that do not exist yet are written (and so created)
VARIABLES hist, kind     \* kind of the current outage: "" | "disable" | "cut" | "restart"
Label(i) == i.e \o ":" \o i.k
GenInit == Init /\ hist = <<>> /\ kind = ""
Rec(op, side, id, del, n, how) == [op |-> op, side |-> side, id |-> id, del |-> del, n |-> n, how |-> how]
GenNext ==
    \/ \E how \in {"disable", "cut", "restart"} :
          /\ LinkDown /\ kind' = how /\ hist' = Append(hist, Rec("down", "", "", FALSE, 0, how))
    \/ /\ LinkUp /\ kind' = "" /\ hist' = Append(hist, Rec("up", "", "", FALSE, 0, kind))
    \/ \E s \in Sides, i \in Idents, del \in BOOLEAN :
          /\ (i.k # "tomb" => ~del)
          \* "create": nodes come into being on either side while the link is down
          /\ (Focus = "create" => i.e \in Fresh /\ ~del /\ link = "down")
          \* "ept": node B also hangs directly below the device (a mirror set up by the driver) and during
          \* the outage nothing but the edge point of its placement below A is written
          /\ (Focus = "ept" => i.k \in {"ept", "tomb"} /\ i.e = "eB" /\ link = "down")
          \* "pt": during the outage nothing but one kind of node point of existing nodes is written
          /\ (Focus = "pt" => i.k = "pt" /\ i.e \notin Fresh /\ link = "down")
          \* "rewrite": one node point of one node is written once while the link is up and twice during the
          \* outage (the driver gives every write of a side the same content: a side may be asked to store what
          \* it already holds, with a newer time)
          /\ (Focus = "rewrite" => i.k = "pt" /\ i.e = "eA" /\ (link = "down" <=> writes >= 1))
          \* an upstream that is being restarted takes no writes
          /\ (kind = "restart" => s = "D")
          \* a node is only written to / deleted where it is currently visible (C02: "nodes visible
          \* there"); a node that does not exist yet (or is deleted) is created (undeleted) below a
          \* visible parent
          /\ Visible(s, i.e) \/ (i.k = "tomb" /\ ~del /\ Visible(s, ParentOf[i.e]))
          /\ Write(s, i, del)
          /\ hist' = Append(hist, Rec("write", s, Label(i), del, clock, ""))
          /\ UNCHANGED kind
    \* protocol steps happen on their own in the real system; for the prediction the model
    \* catches up at once whenever it can
GenProto == (CatchUp \/ \E s \in Sides : Deliver(s)) /\ UNCHANGED <<hist, kind>>
GenSpec == GenInit /\ [][GenNext \/ GenProto]_<<yvars, hist, kind>>
Json == INSTANCE Json
\* the converged state: newest write number per identity (0 = never written)
LastWrite(i) == LET ws == {k \in 1..Len(hist) : hist[k].op = "write" /\ hist[k].id = Label(i)}
                IN IF ws = {} THEN 0 ELSE hist[CHOOSE k \in ws : \A j \in ws : j <= k].n
Dump == (writes = MaxWrites /\ link = "up" /\ outages = MaxOutages) =>
          PrintT(Json!ToJson([focus |-> Focus, ops |-> hist, final |-> [l \in {Label(i) : i \in Idents} |->
                                  LastWrite(CHOOSE i \in Idents : Label(i) = l)]]))
=============================================================================
