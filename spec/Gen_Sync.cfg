SPECIFICATION GenSpec
CONSTANTS
  Idents <- MCIdents
  Edges <- MCEdges
  ParentOf <- MCParent
  MaxWrites = 5
  MaxOutages = 1
  AsCoded = FALSE
INVARIANTS Dump
