SPECIFICATION GenSpec
CONSTANTS
  Idents <- GenIdents
  Edges <- GenEdges
  ParentOf <- GenParent
  Fresh <- GenFresh
  Focus = "any"
  MaxWrites = 5
  MaxOutages = 1
  AsCoded = FALSE
INVARIANTS Dump
