----------------------------- MODULE MC_Export -----------------------------
EXTENDS Export, Json

\* tree shapes over nodes n1..n4 (n1 is the top): parent functions
Shapes == {
    [nodes |-> {"n1"}, parent |-> [n \in {} |-> ""]],
    [nodes |-> {"n1", "n2"}, parent |-> [n \in {"n2"} |-> "n1"]],
    [nodes |-> {"n1", "n2", "n3"}, parent |-> [n \in {"n2", "n3"} |-> "n1"]],
    [nodes |-> {"n1", "n2", "n3"}, parent |-> ("n2" :> "n1" @@ "n3" :> "n2")],
    [nodes |-> {"n1", "n2", "n3", "n4"}, parent |-> ("n2" :> "n1" @@ "n3" :> "n1" @@ "n4" :> "n2")]}

\* point patterns; every node also carries its name (vname) so the driver can match nodes
PtsPat(k, n) ==
    {P("vname", "", 0, n, 0)} \cup
    CASE k = 0 -> {}
      [] k = 1 -> {P("value", "", 1, "", 0)}
      [] k = 2 -> {P("value", "0", 2, "", 0), P("units", "", 0, "T2", 0)}
      [] k = 3 -> {P("arr", "0", 1, "", 0), P("arr", "1", 2, "", 0), P("arr", "2", 3, "", 1)}
      [] k = 4 -> {P("m", "ka", 1, "T1", 0), P("m", "kb", 0, "", 0)}
      [] k = 5 -> {P("value", "0", 3, "", 1)}
      [] k = 6 -> {P("description", "", 0, "T1", 0), P("note", "", 0, "T3", 0)}
      [] k = 7 -> {P("nodeID", "", 0, "n2", 0), P("nodeID", "b", 0, "n1", 0), P("nodeID", "c", 0, "n2", 1)}   \* the last one: a deleted entry of a list of references
      [] k = 8 -> {P("nodeID", "", 0, "ext", 0), P("nodeID", "1", 0, "", 0), P("description", "0", 0, "T2", 0)}
EptsPat(k) ==
    {P("tombstone", "0", 0, "", 0)} \cup
    CASE k = 0 -> {} [] k = 1 -> {P("role", "", 0, "T1", 0)} [] k = 2 -> {P("rank", "0", 5, "", 0), P("rank", "1", 6, "", 0)}

CONSTANTS PtsIdx, EptsIdx, SampleK
VARIABLE c
Init == \E sh \in Shapes :
          \E pk \in [sh.nodes -> PtsIdx], ek \in [sh.nodes -> EptsIdx], del \in [DOMAIN sh.parent -> BOOLEAN] :
            c = [top |-> "n1", nodes |-> sh.nodes, parent |-> sh.parent, deleted |-> del,
                 type |-> [n \in sh.nodes |-> IF n = "n1" THEN "ta" ELSE IF n = "n4" THEN "ta" ELSE "tb"],
                 pts |-> [n \in sh.nodes |-> PtsPat(pk[n], n)],
                 epts |-> [n \in sh.nodes |-> IF n # "n1" /\ del[n] THEN (EptsPat(ek[n]) \ {P("tombstone", "0", 0, "", 0)}) \cup {P("tombstone", "0", 1, "", 0)} ELSE EptsPat(ek[n])]]
Next == UNCHANGED c
Spec == Init /\ [][Next]_c

C15 == Reproduces(c, "np", TRUE) /\ Reproduces(c, "np", FALSE)

SetToSeqAny(S) == LET RECURSIVE f(_)
                      f(T) == IF T = {} THEN <<>> ELSE LET x == CHOOSE y \in T : TRUE IN <<x>> \o f(T \ {x})
                  IN f(S)
NodeList(t) == SetToSeqAny({[id |-> n, parent |-> IF n = t.top THEN "" ELSE t.parent[n],
                             deleted |-> IF n = t.top THEN FALSE ELSE t.deleted[n], type |-> t.type[n],
                             pts |-> SetToSeqAny(t.pts[n]), epts |-> SetToSeqAny(t.epts[n])] : n \in t.nodes})
\* an imported tree as a node list; ids are either old ids (strings) or <<"new", old>>
ImpList(r) == SetToSeqAny({[id |-> i, parent |-> r.parent[i], type |-> r.type[i],
                            pts |-> SetToSeqAny(r.pts[i]), epts |-> SetToSeqAny(r.epts[i])] : i \in r.nodes})
Dump == RandomElement(1..SampleK) = 1 =>
          PrintT(ToJson([tree |-> NodeList(c), live |-> SetToSeqAny(Live(c)),
                         impKeep |-> ImpList(Import(Export(c), "np", TRUE)),
                         impNew |-> ImpList(Import(Export(c), "np", FALSE))]))
=============================================================================
