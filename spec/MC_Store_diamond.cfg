SPECIFICATION Spec
CONSTANTS
  Nodes = {"A", "B", "C"}
  R = "R"
  MaxTs = 1
  MaxOps = 5
  Shape = "empty"
  Mode = "graph"
  NaNVal = 999
  AsCodedCollapse = FALSE
  AsCodedEdgeDelta = FALSE
  AsCodedNewEdge = FALSE
  ConcatKey <- ConcatKeyImpl
INVARIANTS ChangeReachesRoot
VIEW View
