--------------------------- MODULE Trace_Manager ---------------------------
(***************************************************************************)
(* Role 3 for C07 / C08: validates event logs recorded from the real        *)
(* client manager (an instrumented client type registered through the       *)
(* public client.NewManager) against the visible behaviour Manager.tla       *)
(* allows.  The log is linear (one process-wide sequence number), every      *)
(* event is bound to one action; internal scheduling of the manager (which   *)
(* scan started a client) is not logged and not needed: the acceptance       *)
(* conditions are those of Manager!ScanBuild / Subscribe / ClientSees / Exited / Quiet   *)
(* projected on what is visible.                                             *)
(*                                                                         *)
(* Events: Reset | OpStart | OpAck | Construct | RunEnter | RunExit |        *)
(*         Points | EdgePoints | Quiescent | Holds | StopCalled | Returned   *)
(***************************************************************************)
EXTENDS Integers, Sequences, FiniteSets, TLC, Json

Trace == ndJsonDeserialize("trace.ndjson")

VARIABLES l,        \* next event
          live,     \* set of keys "parent-node" (from the last Op)
          kids,     \* [node -> set of kid ids]
          cs,       \* [key -> "absent" | "constructed" | "running"]  (keys seen so far)
          cfgKids,  \* [key -> kids the client was constructed with]
          recent,   \* keys that were live at some time since the last Quiescent
          expect,   \* [key -> sequence of [b, mand]] deliveries owed to a running client (C08)
          pend,     \* the operation in flight: [live, kids] it will establish (none: <<>>)
          stopping
tvars == <<l, live, kids, cs, cfgKids, recent, expect, pend, stopping>>

ToSet(s) == {s[i] : i \in 1..Len(s)}
NodeOfKey(k) == IF k \in {"R-C1", "G-C1", "P-C1"} THEN "C1" ELSE IF k = "R-CZ" THEN "CZ" ELSE IF k = "R-CY" THEN "CY" ELSE "C2"
KidOf(c) == IF c = "C1" THEN "K1" ELSE "K2"
OwnerOf(n) == IF n \in {"C1", "K1"} THEN "C1" ELSE IF n \in {"C2", "K2"} THEN "C2" ELSE "none"
Other(c) == IF c = "C1" THEN "C2" ELSE "C1"
\* the node id an origin class stands for, relative to the written node
Resolve(o, n) == IF o = "self" THEN OwnerOf(n) ELSE IF o = "peer" THEN Other(OwnerOf(n)) ELSE o
\* R-CZ / R-CY: two more nodes of the managed type that the driver creates right before it stops the manager
AllKeys == {"R-C1", "G-C1", "P-C1", "R-C2", "G-C2", "P-C2", "R-CZ", "R-CY"}
St(k) == cs[k]

TraceInit ==
    /\ l = 1 /\ live = {} /\ kids = [c \in {"C1", "C2"} |-> {}]
    /\ cs = [k \in AllKeys |-> "absent"] /\ cfgKids = [k \in AllKeys |-> {}]
    /\ recent = {} /\ expect = [k \in AllKeys |-> <<>>] /\ stopping = FALSE /\ pend = <<>>

Ev == Trace[l]
IsEvent(e) == l <= Len(Trace) /\ Ev.ev = e /\ l' = l + 1

Reset == /\ IsEvent("Reset")
         /\ live' = {} /\ kids' = [c \in {"C1", "C2"} |-> {}]
         /\ cs' = [k \in AllKeys |-> "absent"] /\ cfgKids' = [k \in AllKeys |-> {}]
         /\ recent' = {} /\ expect' = [k \in AllKeys |-> <<>>] /\ stopping' = FALSE /\ pend' = <<>>

\* what a write owes to the client of key k
Owed(k, op) ==
    LET c == NodeOfKey(k)
        n == op.n
        o == op.o
        own == n = c
        desc == n = KidOf(c) /\ n \in kids[c]
        res == Resolve(o, n)
    IN IF op.k = "write" THEN
            IF ~(own \/ desc) THEN "none"
            ELSE IF (o = "" /\ own) \/ res = c THEN "forbidden"
            ELSE IF o = "" THEN "optional"                       \* empty origin on a descendant: C08 is silent
            ELSE "mandatory"
       ELSE IF op.k = "writeedge" THEN
            IF n # c THEN "none"
            ELSE IF o = "" \/ Resolve(o, n) = c THEN "optional"   \* own edge points are not filtered by the manager
            ELSE "mandatory"
       ELSE "none"

\* The driver logs OpStart before it issues a request and OpAck when the request was
\* acknowledged.  From OpStart on the manager may react to the new graph (the placement counts
\* as recently live, deliveries are owed); the graph is known to be established at OpAck.
OpStart == /\ IsEvent("OpStart")
           /\ pend' = <<[live |-> ToSet(Ev.live), kids |-> [c \in {"C1", "C2"} |-> ToSet(Ev.kids[c])]]>>
           /\ recent' = recent \cup ToSet(Ev.live)
           /\ expect' = [k \in AllKeys |->
                           IF cs[k] = "running" /\ Owed(k, Ev) \in {"mandatory", "optional"}
                           THEN Append(expect[k], [b |-> Ev.b, mand |-> Owed(k, Ev) = "mandatory"])
                           ELSE expect[k]]
           /\ UNCHANGED <<live, kids, cs, cfgKids, stopping>>
OpAck == /\ IsEvent("OpAck") /\ pend # <<>>
         /\ live' = pend[1].live /\ kids' = pend[1].kids /\ pend' = <<>>
         /\ UNCHANGED <<cs, cfgKids, recent, expect, stopping>>

\* C07: a client is only constructed for a placement that was live, and never
\* while another client object for the same placement exists
Construct == /\ IsEvent("Construct")
             /\ Ev.key \in AllKeys
             /\ cs[Ev.key] = "absent"
             /\ Ev.key \in recent
             /\ cs' = [cs EXCEPT ![Ev.key] = "constructed"]
             /\ cfgKids' = [cfgKids EXCEPT ![Ev.key] = ToSet(Ev.kids)]
             /\ expect' = [expect EXCEPT ![Ev.key] = <<>>]
             /\ UNCHANGED <<live, kids, recent, stopping, pend>>
RunEnter == /\ IsEvent("RunEnter") /\ cs[Ev.key] = "constructed"
            /\ cs' = [cs EXCEPT ![Ev.key] = "running"]
            /\ UNCHANGED <<live, kids, cfgKids, recent, expect, stopping, pend>>
RunExit == /\ IsEvent("RunExit") /\ cs[Ev.key] = "running"
           /\ cs' = [cs EXCEPT ![Ev.key] = "absent"]
           /\ expect' = [expect EXCEPT ![Ev.key] = <<>>]
           /\ UNCHANGED <<live, kids, cfgKids, recent, stopping, pend>>

\* C08: deliveries arrive in the order of acceptance; optional entries may be skipped
RECURSIVE DropOptional(_, _)
DropOptional(q, b) == IF q = <<>> THEN q
                      ELSE IF Head(q).b = b \/ Head(q).mand THEN q ELSE DropOptional(Tail(q), b)
Deliver == /\ (IsEvent("Points") \/ IsEvent("EdgePoints"))
           /\ cs[Ev.key] = "running"
           /\ LET q == DropOptional(expect[Ev.key], Ev.b)
              IN /\ q # <<>> /\ Head(q).b = Ev.b
                 /\ expect' = [expect EXCEPT ![Ev.key] = Tail(q)]
           /\ UNCHANGED <<live, kids, cs, cfgKids, recent, stopping, pend>>

\* C07 at quiescence = Manager!Quiet; C08: nothing mandatory is still owed
Quiescent == /\ IsEvent("Quiescent")
             /\ \A k \in AllKeys : (k \in live) <=> (cs[k] = "running")
             /\ \A k \in live : cfgKids[k] = kids[NodeOfKey(k)]
             /\ \A k \in AllKeys : \A i \in 1..Len(expect[k]) : ~expect[k][i].mand
             /\ recent' = live
             /\ expect' = [k \in AllKeys |-> <<>>]
             /\ UNCHANGED <<live, kids, cs, cfgKids, stopping, pend>>
\* C08, last clause: a running client that folded everything it was told into the configuration
\* it was started with holds what the store holds for its node and children (the driver compares
\* the two at the end of a schedule and logs the outcome)
Holds == /\ IsEvent("Holds") /\ cs[Ev.key] = "running" /\ Ev.same
         /\ UNCHANGED <<live, kids, cs, cfgKids, recent, expect, stopping, pend>>
StopCalled == /\ IsEvent("StopCalled") /\ stopping' = TRUE
              /\ UNCHANGED <<live, kids, cs, cfgKids, recent, expect, pend>>
Returned == /\ IsEvent("Returned") /\ stopping
            /\ \A k \in AllKeys : cs[k] = "absent"
            /\ UNCHANGED <<live, kids, cs, cfgKids, recent, expect, stopping, pend>>

TraceNext == Reset \/ OpStart \/ OpAck \/ Construct \/ RunEnter \/ RunExit \/ Deliver \/ Quiescent \/ Holds \/ StopCalled \/ Returned
TraceSpec == TraceInit /\ [][TraceNext]_tvars

\* two clients for one placement never run at the same time: structural (cs is a function);
\* checked as an invariant for the record
AtMostOne == \A k \in AllKeys : cs[k] \in {"absent", "constructed", "running"}

\* acceptance: the whole log was consumed; on rejection print where it stopped
TraceAccepted ==
    LET d == TLCGet("stats").diameter - 1
    IN IF d = Len(Trace) THEN TRUE
       ELSE PrintT(<<"TRACE-REJECTED", d + 1, Trace[d + 1]>>) /\ FALSE
=============================================================================
