SPECIFICATION Spec
CONSTANTS
  AsCoded = FALSE
  C11Keys = {"", "0", "1", "2", "5", "-1", "+1", "007", "x", "1001", "9223372036854775807", "9223372036854775808"}
  C11Tombs <- TombsSome
  C11MaxLen = 2
  DoPairs = TRUE
INVARIANTS LawRoundTrip LawDiffMerge Total
