--------------------------- MODULE MC_StoreRepair ---------------------------
(* Verification and repair of stored hashes (Store!Mismatches, Repaired, MaintPass) on every       *)
(* corruption of the start shapes: each subset of the edges gets a wrong stored hash.               *)
(* Role 1: a verification sees every corruption; the intended repair restores HashConsistent;      *)
(* the as-coded pass (children listed before they are repaired) needs up to depth + 1 passes -     *)
(* one pass is not enough (must-fail configuration).                                                *)
(* Role 2: one line per corruption with the nodes a verification must report and the number of     *)
(* passes after which the as-coded maintenance is done.                                             *)
EXTENDS MC_Store

VARIABLE cor          \* the set of edges whose stored hash is wrong
rvars == <<s, delivered, n_ops, hist, cor>>
Corrupt(st, E) == [st EXCEPT !.hash = [e \in st.edges |-> IF e \in E THEN SymDiff(st.hash[e], {<<"corrupt", e[1], e[2], 0>>})
                                                         ELSE st.hash[e]]]
C == Corrupt(s, cor)
Bound == Cardinality(s.edges) + 1
RInit == Init /\ hist = ShapeHist /\ cor \in SUBSET s.edges
RSpec == RInit /\ [][UNCHANGED rvars]_rvars

VerifySeesIt == (cor # {}) => (Mismatches(C) # {})
VerifyIffConsistent == (Mismatches(C) = {}) <=> HashConsistent(C)
RepairRestores == HashConsistent(Repaired(C)) /\ Repaired(C) = s
MaintConverges == HashConsistent(MaintTimes(C, Bound)) /\ MaintTimes(C, Bound) = s
MaintKeepsContent == MaintPass(C).npts = s.npts /\ MaintPass(C).epts = s.epts /\ MaintPass(C).edges = s.edges
SinglePassRepairs == HashConsistent(MaintPass(C))       \* must fail: as coded a repair moves up one level per pass

RDump == PrintT(ToJson([shape |-> hist,
                        cor |-> SetToSeqAny({<<e[1], e[2]>> : e \in cor}),
                        report |-> SetToSeqAny({e[2] : e \in Mismatches(C)}),
                        passes |-> PassesNeeded(C, 0, Bound + 1)]))
=============================================================================
