SPECIFICATION Spec
CONSTANTS
  Writers = {"w1", "w2", "w3"}
  Rounds = 2
  AtomicRMW = FALSE
INVARIANTS OwnCoilKept
