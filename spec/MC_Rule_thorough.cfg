SPECIFICATION Spec
CONSTANTS
  MaxConds = 2
  MaxBatches = 2
  MaxPts = 2
  CondMode = "some"
INVARIANTS C13
VIEW View
