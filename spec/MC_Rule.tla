------------------------------ MODULE MC_Rule ------------------------------
EXTENDS Rule, Json

CONSTANTS MaxConds, MaxBatches, MaxPts, CondMode   \* CondMode: "all" | "some" | "sched" (rules with a schedule condition)
                                                   \*   | "feedback" (a condition watches the point the rule's own action writes)

Nodes == {"A", "B"}
Cond(nf, tf, kf, vt, op, thr, txt) == [nodeF |-> nf, typeF |-> tf, keyF |-> kf, vt |-> vt, op |-> op, thr |-> thr, txt |-> txt]
NumConds == {Cond(nf, tf, kf, "number", op, thr, "") : nf \in {"", "A"}, tf \in {"v", "w"}, kf \in {"", "k"},
                                                      op \in {">", "<", "=", "!="}, thr \in {0, 1}}
OnOffConds == {Cond(nf, "v", kf, "onOff", "", thr, "") : nf \in {"", "B"}, kf \in {"", "k"}, thr \in {0, 1}}
TextConds == {Cond(nf, "w", "", "text", op, 0, txt) : nf \in {"", "A"}, op \in {"=", "!=", "contains"}, txt \in {"a", "ab", ""}}
SchedConds == {Cond("", "trigger", "", "schedule", "", 0, "")}
AllConds == NumConds \cup OnOffConds \cup TextConds \cup SchedConds
SomeConds == {Cond("A", "v", "", "number", ">", 1, ""), Cond("", "v", "k", "number", "!=", 0, ""),
              Cond("", "w", "", "text", "contains", 0, "a"), Cond("B", "v", "", "onOff", "", 1, ""),
              Cond("", "w", "", "text", "=", 0, "ab"), Cond("A", "w", "", "text", "!=", 0, "")} \cup SchedConds
CondSet == IF CondMode = "all" THEN AllConds ELSE SomeConds
\* "sched": every rule has a schedule condition, alone or next to a point condition (either order)
SchedMix == {Cond("A", "v", "", "number", ">", 1, ""), Cond("", "w", "", "text", "contains", 0, "a")}
FeedbackConds == {<<Cond("A", "v", "", "number", "=", 0, "")>>, <<Cond("", "v", "", "number", "<", 1, "")>>,
                  <<Cond("A", "v", "", "number", "=", 0, ""), Cond("", "w", "", "text", "contains", 0, "a")>>}
CondSeqs == IF CondMode = "feedback" THEN FeedbackConds ELSE IF CondMode = "sched"
            THEN {<<sc>> : sc \in SchedConds} \cup {<<sc, c>> : sc \in SchedConds, c \in SchedMix}
                 \cup {<<c, sc>> : sc \in SchedConds, c \in SchedMix}
            ELSE UNION {[1..n -> CondSet] : n \in 0..MaxConds}

Act(t, v, x) == [target |-> t, ptype |-> "out", val |-> v, txt |-> x]
ActLists == {<<>>, <<Act("T1", 1, "")>>, <<Act("T1", 5, "on"), Act("T2", 0, "x")>>}
\* feedback: the active list sets A's v to 1 (which the conditions above read as "not satisfied"),
\* the inactive list is empty - every cascade ends after two batches
FeedbackA == {<<[target |-> "A", ptype |-> "v", val |-> 1, txt |-> ""]>>,
              <<[target |-> "T1", ptype |-> "out", val |-> 1, txt |-> ""], [target |-> "A", ptype |-> "v", val |-> 1, txt |-> ""]>>}

Pts == {[type |-> t, key |-> k, val |-> v, txt |-> x] : t \in {"v", "w"}, k \in {"k", "j"}, v \in {0, 1, 2}, x \in {"", "a", "ab"}}
\* values and texts are correlated to keep the alphabet small: v-points carry numbers, w-points carry texts
PtsSmall == {[type |-> "v", key |-> k, val |-> v, txt |-> ""] : k \in {"k", "j"}, v \in {0, 1, 2}}
            \cup {[type |-> "w", key |-> "j", val |-> 0, txt |-> x] : x \in {"", "a", "ab"}}
\* trigger points (val: 1 = time inside the schedule window, 0 = outside) come one per batch
Triggers == {<<[type |-> "trigger", key |-> "", val |-> v, txt |-> ""]>> : v \in {0, 1}}
BatchesOf == IF CondMode = "sched"
             THEN Triggers \cup {<<[type |-> "v", key |-> "k", val |-> v, txt |-> ""]>> : v \in {0, 2}}
                           \cup {<<[type |-> "w", key |-> "j", val |-> 0, txt |-> x]>> : x \in {"", "a"}}
             ELSE UNION {[1..n -> PtsSmall] : n \in 1..MaxPts} \cup Triggers

VARIABLES cfg, st, hist
rvars == <<cfg, st, hist>>

Init == /\ IF CondMode = "feedback"
           THEN \E cs \in CondSeqs, a \in FeedbackA : cfg = [conds |-> cs, actA |-> a, actI |-> <<>>]
           ELSE \E cs \in CondSeqs, a \in ActLists, i \in ActLists : cfg = [conds |-> cs, actA |-> a, actI |-> i]
        \* (a rule that starts with its configuration complete evaluates nothing until the first point
        \* arrives; its own 10 s schedule tick is outside the behaviours' time span)
        /\ st = [cond |-> [i \in 1..Len(cfg.conds) |-> FALSE], rule |-> FALSE]
        /\ hist = <<>>
\* the rule's own schedule tick (every 10 s it sends itself a trigger stamped with its wall clock, which
\* lies inside the window): only as the last step of a behaviour - the driver has to wait for it
TickBatch == <<[type |-> "trigger", key |-> "tick", val |-> 1, txt |-> ""]>>
Next == /\ Len(hist) < MaxBatches
        /\ \E n \in Nodes, pts \in BatchesOf \cup (IF CondMode = "sched" /\ Len(hist) = MaxBatches - 1 THEN {TickBatch} ELSE {}) :
             LET b == Cascade(cfg.conds, cfg.actA, cfg.actI, st, n, pts, 3)
             IN /\ st' = [cond |-> b.cond, rule |-> b.rule]
                /\ hist' = Append(hist, [node |-> n, pts |-> pts, cond |-> b.cond, rule |-> b.rule, em |-> b.em])
                /\ UNCHANGED cfg
Spec == Init /\ [][Next]_rvars
View == <<cfg, st>>

\* C13: every batch from every reachable state
C13 == \A n \in Nodes, pts \in BatchesOf : BatchCorrect(cfg.conds, cfg.actA, cfg.actI, st, n, pts)

Dump == Len(hist) = MaxBatches => PrintT(ToJson([cfg |-> cfg, steps |-> hist]))
=============================================================================
