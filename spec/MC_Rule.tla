------------------------------ MODULE MC_Rule ------------------------------
EXTENDS Rule, Json

CONSTANTS MaxConds, MaxBatches, MaxPts, CondMode   \* CondMode: "all" | "some"

Nodes == {"A", "B"}
Cond(nf, tf, kf, vt, op, thr, txt) == [nodeF |-> nf, typeF |-> tf, keyF |-> kf, vt |-> vt, op |-> op, thr |-> thr, txt |-> txt]
NumConds == {Cond(nf, tf, kf, "number", op, thr, "") : nf \in {"", "A"}, tf \in {"v", "w"}, kf \in {"", "k"},
                                                      op \in {">", "<", "=", "!="}, thr \in {0, 1}}
OnOffConds == {Cond(nf, "v", kf, "onOff", "", thr, "") : nf \in {"", "B"}, kf \in {"", "k"}, thr \in {0, 1}}
TextConds == {Cond(nf, "w", "", "text", op, 0, txt) : nf \in {"", "A"}, op \in {"=", "!=", "contains"}, txt \in {"a", "ab", ""}}
AllConds == NumConds \cup OnOffConds \cup TextConds
SomeConds == {Cond("A", "v", "", "number", ">", 1, ""), Cond("", "v", "k", "number", "!=", 0, ""),
              Cond("", "w", "", "text", "contains", 0, "a"), Cond("B", "v", "", "onOff", "", 1, ""),
              Cond("", "w", "", "text", "=", 0, "ab"), Cond("A", "w", "", "text", "!=", 0, "")}
CondSet == IF CondMode = "all" THEN AllConds ELSE SomeConds
CondSeqs == UNION {[1..n -> CondSet] : n \in 0..MaxConds}

Act(t, v, x) == [target |-> t, ptype |-> "out", val |-> v, txt |-> x]
ActLists == {<<>>, <<Act("T1", 1, "")>>, <<Act("T1", 5, "on"), Act("T2", 0, "x")>>}

Pts == {[type |-> t, key |-> k, val |-> v, txt |-> x] : t \in {"v", "w"}, k \in {"k", "j"}, v \in {0, 1, 2}, x \in {"", "a", "ab"}}
\* values and texts are correlated to keep the alphabet small: v-points carry numbers, w-points carry texts
PtsSmall == {[type |-> "v", key |-> k, val |-> v, txt |-> ""] : k \in {"k", "j"}, v \in {0, 1, 2}}
            \cup {[type |-> "w", key |-> "j", val |-> 0, txt |-> x] : x \in {"", "a", "ab"}}
BatchesOf == UNION {[1..n -> PtsSmall] : n \in 1..MaxPts}

VARIABLES cfg, st, hist
rvars == <<cfg, st, hist>>

Init == /\ \E cs \in CondSeqs, a \in ActLists, i \in ActLists : cfg = [conds |-> cs, actA |-> a, actI |-> i]
        /\ st = [cond |-> [i \in 1..Len(cfg.conds) |-> FALSE], rule |-> FALSE]
        /\ hist = <<>>
Next == /\ Len(hist) < MaxBatches
        /\ \E n \in Nodes, pts \in BatchesOf :
             LET b == Batch(cfg.conds, cfg.actA, cfg.actI, st, n, pts)
             IN /\ st' = [cond |-> b.cond, rule |-> b.rule]
                /\ hist' = Append(hist, [node |-> n, pts |-> pts, cond |-> b.cond, rule |-> b.rule, em |-> b.em])
                /\ UNCHANGED cfg
Spec == Init /\ [][Next]_rvars
View == <<cfg, st>>

\* C13: every batch from every reachable state
C13 == \A n \in Nodes, pts \in BatchesOf : BatchCorrect(cfg.conds, cfg.actA, cfg.actI, st, n, pts)

Dump == Len(hist) = MaxBatches => PrintT(ToJson([cfg |-> cfg, steps |-> hist]))
=============================================================================
