SPECIFICATION GenSpec
CONSTANTS
  Idents <- GenIdents
  Edges <- GenEdges
  ParentOf <- GenParent
  Fresh <- GenFresh
  Focus = "any"
  MaxWrites = 6
  MaxOutages = 2
  AsCoded = FALSE
INVARIANTS Dump
