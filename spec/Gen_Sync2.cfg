SPECIFICATION GenSpec
CONSTANTS
  Idents <- MCIdents
  Edges <- MCEdges
  ParentOf <- MCParent
  MaxWrites = 6
  MaxOutages = 2
  AsCoded = FALSE
INVARIANTS Dump
