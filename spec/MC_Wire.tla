------------------------------ MODULE MC_Wire ------------------------------
EXTENDS Wire, Json, SequencesExt

CONSTANTS IdChars,      \* characters node ids are built from
          MaxIdLen, NodeListLens

VARIABLE c
Ids == UNION {[1..n -> IdChars] : n \in 1..MaxIdLen}
Ids1 == [1..1 -> IdChars]
DocumentedSubjects ==
    {<<>>, <<"a","c","k">>, <<"p","h","r">>}
    \cup {<<"p", ".">> \o i : i \in Ids}
    \cup {<<"p", ".">> \o i \o <<".">> \o j : i \in Ids1, j \in Ids}
    \cup {<<"p", ".">> \o i \o <<".">> \o j : i \in Ids, j \in Ids1}

\* one state per point pattern / per subject
Init == \/ \E p \in PointPat : c = [kind |-> "point", p |-> p]
        \/ \E s \in DocumentedSubjects : c = [kind |-> "subject", s |-> s]
        \/ \E sc \in [NodeScalars -> {"z", "a"}], np \in NodeListLens, ne \in NodeListLens,
              f1 \in PointFields, f2 \in PointFields :
              c = [kind |-> "node",
                   n |-> [sc |-> sc,
                          points |-> [i \in 1..np |-> [f \in PointFields |-> IF f = f1 THEN "a" ELSE IF i = 2 THEN "b" ELSE "z"]],
                          edgePoints |-> [i \in 1..ne |-> [f \in PointFields |-> IF f = f2 THEN "b" ELSE "z"]]]]
Next == UNCHANGED c
Spec == Init /\ [][Next]_c

Lossless == /\ c.kind = "point" => LosslessPoint(c.p)
            /\ c.kind = "node" => LosslessNode(c.n)
\* the as-coded encoder loses exactly the patterns that carry data (sensitivity of the invariant)
AsCodedLosesData == c.kind = "point" =>
    ((DecPoint(EncPointAsCoded(c.p)) = c.p) <=> (c.p["data"] = "z"))
\* the exemption hole is exactly the subject p.g
HoleIsPG == c.kind = "subject" => (Hole(c.s) <=> c.s = <<"p", ".", "g">>)

Flat(s) == s
Dump == PrintT(ToJson(
    IF c.kind = "point" THEN [kind |-> "point", p |-> c.p, serial |-> SerialRoundTrip(c.p)]
    ELSE IF c.kind = "node" THEN [kind |-> "node", n |-> c.n]
    ELSE [kind |-> "subject", s |-> c.s, hole |-> Hole(c.s)]))
=============================================================================
