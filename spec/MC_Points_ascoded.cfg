SPECIFICATION Spec
CONSTANTS
  AsCoded = TRUE
  C11Keys = {"", "0", "5", "x"}
  C11Tombs <- TombsFew
  C11MaxLen = 1
  DoPairs = FALSE
INVARIANTS NoPanic
