SPECIFICATION LSpec
CONSTANTS
  Actors = {"a1", "a2", "a3"}
INVARIANTS ToldOnce ReturnsAfterAll FirstErrorWins
PROPERTIES Terminates
