#!/bin/sh
# Offline setup: build the Go harness once (warms the build cache) and check
# that TLC starts.  Everything needed is on disk already.
set -e
cd "$(dirname "$0")"
export GOFLAGS=-mod=mod GOPROXY=off GOSUMDB=off GOTOOLCHAIN=local
python3 - <<'PY'
import vlib
vlib.build_vh()
PY
java -cp /opt/veriftools/tla/tla2tools.jar tlc2.TLC -h >/dev/null 2>&1 || true
echo setup ok
