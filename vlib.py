"""Shared machinery of the /verif orchestrator (python3, stdlib only).

Roles (DESIGN.md section 3.1):
  role 1  tlc_check()   model-check a module/config, return TLC's own state counts
  role 2  tlc_generate() run a Gen_* config and collect the JSON lines TLC prints
  role 3  tlc_trace()    validate an NDJSON trace recorded from the real code

Verdict rule: a VIOLATION is only produced from behaviour of the real code
(harness results / rejected recorded traces).  Anything that goes wrong inside
the machinery raises MachineryError -> exit 2.
"""
import json
import os
import re
import shutil
import subprocess
import sys
import tempfile
import time

VERIF = os.path.dirname(os.path.abspath(__file__))
SPEC = os.path.join(VERIF, "spec")
HARNESS = os.path.join(VERIF, "harness")
BUILD = os.path.join(VERIF, ".build")
EVID = os.path.join(VERIF, "evidence")
REPLAYS = os.path.join(VERIF, "replays")
REPO = os.environ.get("VERIF_REPO", "/repo")
NCPU = os.cpu_count() or 4

GOENV = dict(os.environ)
GOENV.update({
    "GOFLAGS": "-mod=mod", "GOPROXY": "off", "GOSUMDB": "off",
    "GOTOOLCHAIN": "local", "CGO_ENABLED": os.environ.get("CGO_ENABLED", "1"),
})


class MachineryError(Exception):
    pass


def log(*a):
    print(*a, file=sys.stderr, flush=True)


# ---------------------------------------------------------------- scratch

class Scratch:
    """A scratch directory outside /repo and /verif, removed on exit."""

    def __init__(self, tag):
        self.dir = tempfile.mkdtemp(prefix="verif-%s-" % tag)

    def path(self, *p):
        return os.path.join(self.dir, *p)

    def cleanup(self):
        shutil.rmtree(self.dir, ignore_errors=True)

    def __enter__(self):
        return self

    def __exit__(self, *a):
        if not os.environ.get("VERIF_KEEP"):
            self.cleanup()
        else:
            log("kept scratch", self.dir)


# ---------------------------------------------------------------- go build

def _harness_gomod(repo):
    """The harness go.mod is generated so that `replace` points at the tree
    under test (normally /repo; a scratch worktree for mutant self-tests)."""
    src = open(os.path.join(HARNESS, "go.mod.in")).read()
    return src.replace("@REPO@", repo)


def build_vh(race=False, repo=None):
    """Build harness/cmd/vh against the *current working tree* of the repo,
    with the verif build tag (hooks on).  A tree other than /repo (seeded-change
    self-tests) gets its own module file and its own binary, so that such a run
    never disturbs a check of /repo running at the same time."""
    repo = repo or REPO
    alt = os.path.abspath(repo) != os.path.abspath(os.environ.get("VERIF_REPO", "/repo"))
    # (one directory per process: several self-tests may run at the same time)
    outdir = os.path.join(BUILD, "alt-%d" % os.getpid()) if alt else BUILD
    os.makedirs(outdir, exist_ok=True)
    gm = os.path.join(outdir, "go.mod") if alt else os.path.join(HARNESS, "go.mod")
    want = _harness_gomod(repo)
    if not os.path.exists(gm) or open(gm).read() != want:
        open(gm, "w").write(want)
    shutil.copyfile(os.path.join(repo, "go.sum"), gm[:-4] + ".sum")
    out = os.path.join(outdir, "vh-race" if race else "vh")
    cmd = ["go", "build", "-tags", "verif", "-o", out]
    if alt:
        cmd += ["-modfile", gm]
    if race:
        cmd.insert(2, "-race")
    cmd.append("./cmd/vh")
    t0 = time.time()
    p = subprocess.run(cmd, cwd=HARNESS, env=GOENV, stdout=subprocess.PIPE,
                       stderr=subprocess.STDOUT, text=True)
    if p.returncode != 0:
        raise MachineryError("go build failed:\n" + p.stdout[-4000:])
    log("built %s in %.1fs" % (out, time.time() - t0))
    return out


def run_vh(vh, args, timeout=3600, env=None, stdin=None):
    """Run the harness binary. It writes a JSON result file itself; stdout and
    stderr are passed back for logging."""
    e = dict(GOENV)
    if env:
        e.update(env)
    try:
        p = subprocess.run([vh] + args, env=e, stdout=subprocess.PIPE,
                           stderr=subprocess.PIPE, text=True, timeout=timeout,
                           input=stdin)
    except subprocess.TimeoutExpired:
        raise MachineryError("harness timed out: %s" % " ".join(args))
    return p


# ---------------------------------------------------------------- TLC

_TLC_JAR = "/opt/veriftools/tla/tla2tools.jar:/opt/veriftools/tla/CommunityModules-deps.jar"

_re_states = re.compile(r"(\d+) states generated, (\d+) distinct states found, (\d+) states left on queue")
_re_depth = re.compile(r"The depth of the complete state graph search is (\d+)")


class TlcResult:
    def __init__(self):
        self.rc = None
        self.out = ""
        self.generated = 0
        self.distinct = 0
        self.depth = 0
        self.ok = False
        self.violation = None  # text of an invariant/property violation
        self.wall = 0.0
        self.lines = []  # JSON values printed by PrintT(ToJson(..))
        self.coverage_zero = []


def _prep_spec_dir(sc, extra_files=None):
    d = sc.path("spec")
    if not os.path.isdir(d):
        shutil.copytree(SPEC, d)
    for name, content in (extra_files or {}).items():
        with open(os.path.join(d, name), "w") as f:
            f.write(content)
    return d


def run_apalache(sc, module, args, timeout=600):
    """Bonus runs with Apalache (never the deciding check): returns "ok", "error" (a counterexample was found)
    or "unavailable" (time-out, tool missing, anything else)."""
    d = tempfile.mkdtemp(prefix="apa-", dir=sc.dir)
    shutil.copy(os.path.join(VERIF, "spec", module + ".tla"), d)
    try:
        p = subprocess.run(["apalache-mc", "check"] + args + ["--out-dir=" + os.path.join(d, "out"), module + ".tla"],
                           cwd=d, capture_output=True, text=True, timeout=timeout)
    except (subprocess.TimeoutExpired, OSError):
        return "unavailable"
    if "EXITCODE: OK" in p.stdout:
        return "ok"
    if "Checker has found an error" in p.stdout:
        return "error"
    return "unavailable"


def run_tlc(sc, module, cfg, workers=None, simulate=None, depth=None, seed=None,
            timeout=1800, extra_files=None, deque=False, coverage=False,
            heap=None, collect_json=False, extra_args=None, allow_violation=False,
            deadlock=False, sample=None):
    """Run TLC on spec/<module>.tla with spec/<cfg> in a scratch copy of spec/.
    Returns a TlcResult.  Raises MachineryError on anything that is not a
    clean pass (or a property violation when allow_violation)."""
    d = _prep_spec_dir(sc, extra_files)
    meta = tempfile.mkdtemp(prefix="meta-", dir=sc.dir)
    jopts = ["-XX:+UseParallelGC", "-Xss256m", "-Djava.io.tmpdir=" + meta]   # TLC's own temp directories go with the scratch
    if heap:
        jopts.append("-Xmx" + heap)
    if deque:
        jopts.append("-Dtlc2.tool.queue.IStateQueue=StateDeque")
    cmd = ["java"] + jopts + ["-cp", _TLC_JAR, "tlc2.TLC",
                              "-metadir", meta, "-config", cfg,
                              "-workers", str(workers or NCPU)]
    if not deadlock:
        cmd += ["-deadlock"]
    if simulate is not None:
        cmd += ["-simulate", "num=%d" % simulate]
        if depth:
            cmd += ["-depth", str(depth)]
    if seed is not None:
        cmd += ["-seed", str(seed)]
    if coverage:
        cmd += ["-coverage", "1"]
    if extra_args:
        cmd += extra_args
    cmd.append(module + ".tla")
    r = TlcResult()
    t0 = time.time()
    # TLC's output is read as it comes: generator output can be gigabytes (the simulator prints every
    # behaviour once per successor of its last step), so JSON lines are parsed - and, with `sample`, thinned
    # out to one behaviour per distinct prefix - on the fly and nothing else of them is kept
    other = []
    groups = {}       # sample: prefix key -> [count, chosen]
    rng = None
    if sample is not None:
        import random
        rng = random.Random(sample.get("seed", 1))
    proc = subprocess.Popen(cmd, cwd=d, stdout=subprocess.PIPE, stderr=subprocess.STDOUT, text=True)
    timed_out = []

    def _kill():
        timed_out.append(True)
        proc.kill()
    import threading
    timer = threading.Timer(timeout, _kill)
    timer.start()
    try:
        for ln in proc.stdout:
            ln = ln.rstrip("\n")
            if collect_json and ln.startswith('"') and ln.endswith('"') and len(ln) > 2 and ln[1] in "[{":
                try:
                    v = json.loads(json.loads(ln))
                except Exception as e:  # noqa
                    proc.kill()
                    raise MachineryError("cannot parse generator line: %r (%s)" % (ln[:200], e))
                if sample is None:
                    r.lines.append(v)
                else:
                    st = sample["steps_of"](v)
                    key = hash(json.dumps(st[:-1], sort_keys=True))
                    g = groups.get(key)
                    if g is None:
                        if sample.get("limit") and len(groups) >= sample["limit"]:
                            continue
                        groups[key] = [1, v]
                    else:
                        g[0] += 1
                        if rng.randrange(g[0]) == 0:
                            g[1] = v
            else:
                other.append(ln)
                if len(other) > 200000:
                    del other[:100000]
        proc.wait()
    finally:
        timer.cancel()
        shutil.rmtree(meta, ignore_errors=True)
    if timed_out:
        raise MachineryError("TLC timed out after %ds: %s %s" % (timeout, module, cfg))
    if sample is not None:
        r.lines = [g[1] for g in groups.values()]

    class _P:
        pass
    p = _P()
    p.stdout = "\n".join(other)
    p.returncode = proc.returncode
    r.wall = time.time() - t0
    r.rc = p.returncode
    r.out = p.stdout
    for m in _re_states.finditer(p.stdout):
        r.generated, r.distinct = int(m.group(1)), int(m.group(2))
    m = _re_depth.search(p.stdout)
    if m:
        r.depth = int(m.group(1))
    if "is violated" in p.stdout or "was violated" in p.stdout or "Error: Deadlock reached" in p.stdout:
        m = re.search(r"Error: (.*(?:is violated|was violated|Deadlock reached).*)", p.stdout)
        r.violation = m.group(1) if m else "violated"
    finished = ("Model checking completed. No error has been found." in p.stdout
                or (simulate is not None and r.violation is None and p.returncode == 0))
    r.ok = finished and r.violation is None
    if not r.ok and not (allow_violation and r.violation):
        raise MachineryError("TLC %s/%s did not pass (rc=%s):\n%s" %
                             (module, cfg, p.returncode, p.stdout[-6000:]))
    return r


def tlc_trace(sc, module, cfg, trace_path, timeout=1800, deque=True, extra_files=None):
    """Role 3.  The trace spec reads the file named by env var TRACE (IOEnv) and
    keeps a high-water mark of the consumed prefix in TLC register 1; its
    POSTCONDITION fails if the trace was not consumed to the end, and then it
    prints `TRACE-REJECTED at <l>`."""
    d = _prep_spec_dir(sc, extra_files)
    shutil.copyfile(trace_path, os.path.join(d, "trace.ndjson"))
    try:
        r = run_tlc(sc, module, cfg, workers=1, timeout=timeout, deque=deque,
                    allow_violation=True)
    except MachineryError as e:
        # a rejected trace makes the POSTCONDITION false: that is an outcome, not a machinery error
        if "TRACE-REJECTED" in str(e):
            r = TlcResult()
            r.out = str(e)
            r.ok = False
            r.violation = "trace rejected"
            return r
        raise
    return r


# ---------------------------------------------------------------- findings

def load_findings():
    p = os.path.join(VERIF, "known_findings.json")
    if not os.path.exists(p):
        return []
    return json.load(open(p))["findings"]


def classify(prop, failures):
    """failures: list of dicts, each with a 'finding' key (a stable class id
    computed by the harness from the *input* that failed, or None) and
    'what'.  A failure is a KNOWN-FINDING only if its class id equals the id of
    an entry with status 'known' for this property."""
    known = {f["id"]: f for f in load_findings()
             if f["property"] == prop and f.get("status") == "known"}
    kf, viol = {}, []
    for f in failures:
        k = f.get("finding")
        if k and k in known:
            kf.setdefault(k, []).append(f)
        else:
            viol.append(f)
    return kf, viol, known


# ---------------------------------------------------------------- evidence

def write_evidence(prop, tier, seed, coverage, wall, violations, assumptions, level="model_checking"):
    os.makedirs(EVID, exist_ok=True)
    ev = {
        "property_id": prop, "tier": tier, "seed": int(seed), "level": level,
        "coverage": coverage, "assumptions": assumptions,
        "wall_s": round(wall, 2), "violations": int(violations),
    }
    tmp = os.path.join(EVID, prop + ".json.tmp")
    with open(tmp, "w") as f:
        json.dump(ev, f, indent=1, sort_keys=False)
        f.write("\n")
    os.replace(tmp, os.path.join(EVID, prop + ".json"))


def write_replay(prop, payload):
    os.makedirs(REPLAYS, exist_ok=True)
    n = 0
    while True:
        p = os.path.join(REPLAYS, "%s-%d-%d.json" % (prop, int(time.time()), n))
        if not os.path.exists(p):
            break
        n += 1
    with open(p, "w") as f:
        json.dump(payload, f, indent=1)
    return p


def trunc(v, n=600):
    s = json.dumps(v)
    if len(s) <= n:
        return v
    return s[:n] + "…"
